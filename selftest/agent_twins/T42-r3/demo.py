"""Equivalence demonstration for the conditional aggregates (property C12).

Part 1 calls the runtime helpers (_sum_if, _sumifs, _countifs, _averageifs) of BOTH copies of the
runtime class directly (the importable class and the class printed from the template) with many
argument combinations, recording every call made to the criteria.
Part 2 builds a workbook with SUMIF / SUMIFS / COUNTIFS / AVERAGEIFS formulas using every kind of
criterion, translates every formula on its own, prints the generated code of the formula and its
value, and then runs the whole workbook through Parser / Executor, overriding cells.
Everything printed is deterministic.
"""
import datetime
import hashlib
import os
import re
import shutil
import sys
import tempfile

from openpyxl import Workbook

from excel2pycl import Parser, Executor, Cell
from excel2pycl.src.context import Context
from excel2pycl.src.excel import Excel
from excel2pycl.src.translators import CellTranslator
from excel2pycl.src.utilities.abstract_excel_in_python_class import AbstractExcelInPython

LINES = []


def out(*parts):
    line = ' '.join(str(p) for p in parts)
    LINES.append(line)
    print(line)


def show(value):
    if isinstance(value, list):
        return '[' + ', '.join(show(i) for i in value) + ']'
    if isinstance(value, tuple):
        return '(' + ', '.join(show(i) for i in value) + ')'
    if isinstance(value, re.Match):
        return f'Match:{value.group()!r}'
    return f'{type(value).__name__}:{value!r}'


def attempt(function):
    try:
        return 'ok ' + show(function())
    except BaseException as error:  # noqa
        return f'raised {type(error).__name__}: {error}'


def digest(text):
    return hashlib.sha256(text.encode('utf-8')).hexdigest()[:16]


# ----------------------------------------------------------------------------------- part 1
class Direct(AbstractExcelInPython):
    pass


def template_instance():
    namespace = {}
    exec(compile(Context().build_class(), '<template>', 'exec'), namespace)
    return namespace['ExcelInPython']()


class Recorder:
    """A criterion that remembers what it was asked, in order."""

    def __init__(self, name, function):
        self.name, self.function, self.calls = name, function, []

    def __call__(self, value):
        self.calls.append(show(value))
        return self.function(value)


def criteria_set(instance):
    def boom(value):
        if value == 3:
            raise KeyError('three')
        return True

    return [
        ('gt5', lambda x: instance._compare('>', x, 5) if not isinstance(x, str) else False),
        ('raw_gt5', lambda x: x > 5),
        ('eq_a', lambda x: str(x).lower() == 'a'),
        ('ne_x', lambda x: str(x).lower() != 'x'),
        ('eq3', lambda x: x == 3),
        ('eq0', lambda x: x == 0),
        ('always', lambda x: True),
        ('never', lambda x: False),
        ('truthy_value', lambda x: x),
        ('none_result', lambda x: None),
        ('wild_a_star', lambda x: re.fullmatch(instance._regexp('a*'), str(x), re.I | re.S)),
        ('wild_q', lambda x: re.fullmatch(instance._regexp('?'), str(x), re.I | re.S)),
        ('wild_tilde', lambda x: re.fullmatch(instance._regexp('~*'), str(x), re.I | re.S)),
        ('boom_on_3', boom),
    ]


def range_sets(instance):
    empty = instance.EmptyCell
    return [
        ('numbers', [[1], [6], [3], [9], [12]]),
        ('row', [[1, 6, 3, 9, 12]]),
        ('matrix', [[1, 6], [3, 9], [12, 0]]),
        ('floats', [[0.1], [0.2], [0.3], [1e16], [-1e16], [7.5]]),
        ('texts', [['a'], ['A'], ['ab'], ['x'], ['*'], ['']]),
        ('mixed', [[1], ['a'], [True], [False], [empty()], [None], [6.5], ['7'], [datetime.datetime(2024, 1, 1)]]),
        ('blanks', [[empty()], [empty()], [empty()]]),
        ('bools', [[True], [False], [True]]),
        ('single', [[7]]),
        ('flat', [1, 6, 3]),
        ('nested', [[[1], [6]], [[3]]]),
        ('empty', []),
        ('empty_rows', [[], []]),
        ('with_three', [[3], [3], [8]]),
        ('errors', [['#N/A'], [2], ['#DIV/0!']]),
    ]


def run_recorded(label, call, recorders):
    for recorder in recorders:
        recorder.calls.clear()
    result = attempt(call)
    trace = ' ; '.join(f'{r.name}<-[{", ".join(r.calls)}]' for r in recorders)
    out(label, '->', result, '| calls', trace)


def direct_calls(copy_name, instance):
    out(f'== runtime helpers called directly on the {copy_name} copy')
    criteria = criteria_set(instance)
    ranges = range_sets(instance)
    by_name = dict(ranges)

    out('-- _sum_if')
    for range_name, range_ in ranges:
        for sum_name, sum_range in ranges:
            if len(range_name) + len(sum_name) > 14 and (range_name, sum_name) not in (('numbers', 'numbers'),):
                # keep the output readable: all pairs of short names plus a few long ones
                if not (range_name == sum_name or sum_name in ('floats', 'mixed') and range_name in ('numbers', 'texts')):
                    continue
            for criterion_name, criterion in criteria:
                recorder = Recorder(criterion_name, criterion)
                run_recorded(f'_sum_if({range_name},{criterion_name},{sum_name})',
                             lambda: instance._sum_if(range_, recorder, sum_range), [recorder])
    recorder = Recorder('always', lambda x: True)
    run_recorded('_sum_if(numbers,always)', lambda: instance._sum_if(by_name['numbers'], recorder), [recorder])
    run_recorded('_sum_if(numbers,always,None)', lambda: instance._sum_if(by_name['numbers'], recorder, None), [recorder])
    run_recorded('_sum_if(None,always,numbers)', lambda: instance._sum_if(None, recorder, by_name['numbers']), [recorder])
    run_recorded('_sum_if(5,always,numbers)', lambda: instance._sum_if(5, recorder, by_name['numbers']), [recorder])
    run_recorded('_sum_if("abc",always,numbers)', lambda: instance._sum_if('abc', recorder, by_name['numbers']), [recorder])
    run_recorded('_sum_if(numbers,not callable,numbers)',
                 lambda: instance._sum_if(by_name['numbers'], 'x', by_name['numbers']), [recorder])
    run_recorded('_sum_if(numbers,always,texts)',
                 lambda: instance._sum_if(by_name['numbers'], recorder, by_name['texts']), [recorder])
    run_recorded('_sum_if(numbers,always,lists)',
                 lambda: instance._sum_if(by_name['numbers'], recorder, [(1, 2), (3,), 4, 5, 6]), [recorder])

    targets = ['numbers', 'row', 'floats', 'texts', 'mixed', 'blanks', 'bools', 'single', 'empty', 'with_three',
               'errors', 'matrix']
    helpers = [
        ('_sumifs', lambda target, *pairs: instance._sumifs(target, *pairs)),
        ('_averageifs', lambda target, *pairs: instance._averageifs(target, *pairs)),
        ('_countifs', lambda target, *pairs: instance._countifs(target, *pairs)),
    ]
    for helper_name, helper in helpers:
        out('--', helper_name, 'one pair')
        for target_name in targets:
            for range_name, range_ in ranges:
                for criterion_name, criterion in criteria:
                    same_size = len(instance._flatten_list(range_)) == len(instance._flatten_list(by_name[target_name]))
                    if not same_size and criterion_name not in ('gt5', 'always', 'boom_on_3'):
                        continue
                    recorder = Recorder(criterion_name, criterion)
                    target = [list(row) if isinstance(row, list) else row for row in by_name[target_name]]
                    if helper_name == '_countifs':
                        call = lambda: helper(target, recorder)
                        label = f'{helper_name}({target_name},{criterion_name})'
                        if range_name != 'numbers':
                            continue
                    else:
                        call = lambda: helper(target, range_, recorder)
                        label = f'{helper_name}({target_name};{range_name},{criterion_name})'
                    run_recorded(label, call, [recorder])
                    out('   target afterwards', show(target))
        out('--', helper_name, 'several pairs, odd argument counts, wrong sizes')
        first = Recorder('first', lambda x: instance._compare('>', x, 2) if not isinstance(x, str) else True)
        second = Recorder('second', lambda x: x != 9)
        third = Recorder('third', lambda x: str(x).lower() != 'x')
        boom = Recorder('boom', dict(criteria)['boom_on_3'])
        numbers, texts5 = by_name['numbers'], [['a'], ['x'], ['b'], ['X'], ['c']]
        lead = (first,) if helper_name == '_countifs' else ()
        combos = [
            ('none', ()),
            ('two pairs', (numbers, first, numbers, second)) if not lead else ('two pairs', (numbers, second, texts5, third)),
            ('three pairs', (numbers, first, texts5, third, by_name['row'], second)),
            ('same range twice', (numbers, first, numbers, first)),
            ('second too short', (numbers, first, by_name['single'], second)),
            ('first too long', (by_name['floats'], first, numbers, second)),
            ('both wrong', (by_name['single'], first, by_name['empty'], second)),
            ('odd: range without criterion', (numbers, first, texts5)),
            ('odd: lonely wrong range', (numbers, first, by_name['single'])),
            ('odd: only a range', (numbers,)),
            ('criterion first', (first, numbers)),
            ('range is None', (None, first)),
            ('range is int', (5, first)),
            ('criterion not callable', (numbers, 'x')),
            ('criterion raises midway', (numbers, first, numbers, boom, numbers, second)),
            ('raises before size error', (numbers, boom, by_name['single'], second)),
            ('blanks and bools', ([[instance.EmptyCell()], [True], [False], [0], [None]], Recorder('eq0', lambda x: x == 0))),
        ]
        for combo_name, arguments in combos:
            recorders = [a for a in lead + arguments if isinstance(a, Recorder)]
            for target_name in ('numbers', 'floats', 'mixed5'):
                if target_name == 'mixed5':
                    target = [[1], [True], [instance.EmptyCell()], ['7'], [2.5]]
                else:
                    target = [list(row) for row in by_name[target_name]]
                run_recorded(f'{helper_name}({target_name}; {combo_name})', lambda: helper(target, *lead, *arguments),
                             recorders)
                out('   target afterwards', show(target))


# ----------------------------------------------------------------------------------- part 2
ROWS = [
    # A qty   B product      C person   D flag   E price  F date                            G code
    [5, 'Apples', 'Tom', True, 1.5, datetime.datetime(2024, 1, 1), 'a1'],
    [3, 'apples', 'Sarah', False, 2.25, datetime.datetime(2024, 1, 2), 'A2'],
    [15, 'Artichokes', 'tom', True, None, datetime.datetime(2024, 2, 1), 'b*'],
    [3, 'Artichokes', 'Sarah', None, 4, None, 'b?'],
    [22, 'Bananas', 'Tom', False, 0, datetime.datetime(2024, 3, 1), '~'],
    [12, 'Bananas', 'Sarah', True, -1, datetime.datetime(2023, 12, 31), ''],
    [10, 'Carrots', 'TOM', 1, 100, datetime.datetime(2024, 1, 1), 'x'],
    [None, 'Carrots', 'Sarah', 0, 3, datetime.datetime(2025, 1, 1), '5'],
    [0, None, None, None, 5, None, 5],
    [7.5, '*', 'T?m', 'yes', '6', 'text', '>5'],
]

CRITERIA = [
    '">5"', '">=5"', '"<5"', '"<=5"', '"<>5"', '"=5"', '"<>"', '"="', '">"', '">5.5"', '">0.5e1"', '">5e-1"', '">1e1"',
    '">-1"', '"> 5"', '">5 "', '">05"', '">5."', '">.5"', '">abc"', '"<>x"', '"<>Tom"', '"=Tom"', '"=3"', '"Tom"', '"tom"',
    '"TOM"', '"Apples"', '""', '" "', '5', '3', '0', '7.5', '1.5', '-1', 'TRUE', 'FALSE', '"TRUE"', '"5"', '"3"',
    'J1', 'J2', 'J3', 'J4', 'J5', 'J6', 'J7', '$J$1', 'Aux!A1', "'Aux 2'!A1", 'J1+1', 'J1*2-1', '">"&J1', '">="&J1',
    '"<"&J1', '"<="&J1', '"<>"&J1', '"="&J1', '"<>"&J2', '"="&J2', '">"&J1+1', '">"&Aux!A1', '"<>"&J6', '""&J2',
    '">5"&J1', '">"&5', '">"&"5"', '"a*"', '"A*"', '"*s"', '"*an*"', '"?om"', '"T?m"', '"???"', '"*"', '"?"', '"~*"',
    '"~?"', '"~~"', '"b~*"', '"b~?"', '"*~**"', '"T~?m"', '"a?"', '"?*"', '"**"', '"*a*e*"', '"[a]*"', '"a.*"', '".*"',
    '"~"', '"~a"', '"1/1/2024"', '"2024-01-01"', '">2024-01-01"', 'F1', 'F4', 'LEFT(C1;1)&"om"', 'SUM(J1;1)',
    'IF(J1>1;"Tom";"Sarah")', '"it\'s"', '">\'"',
]


def formula_list():
    formulas = []
    for criterion in CRITERIA:
        formulas.append(f'=SUMIF(A1:A10;{criterion})')
        formulas.append(f'=SUMIF(C1:C10;{criterion};A1:A10)')
        formulas.append(f'=SUMIFS(A1:A10;C1:C10;{criterion})')
        formulas.append(f'=COUNTIFS(B1:B10;{criterion})')
        formulas.append(f'=COUNTIFS(G1:G10;{criterion};A1:A10;">=0")')
        formulas.append(f'=AVERAGEIFS(E1:E8;A1:A8;{criterion})')
        formulas.append(f'=SUMIFS(E1:E10;A1:A10;">2";D1:D10;{criterion})')
    formulas += [
        # shapes and sizes
        '=SUMIF(A1:A10;">5";E1:E10)', '=SUMIF(A1:A10;">5";E1)', '=SUMIF(A1:A10;">5";E1:E3)', '=SUMIF(A1;">2";E5)',
        '=SUMIF(A1:B5;"Apples";D1:E5)', '=SUMIF(A1:E1;">1")', '=SUMIF(A1:E1;">1";A2:E2)', '=SUMIF(A:A;">5")',
        '=SUMIF(A:A;">5";E:E)', '=SUMIF(Aux!A1:A3;">1";Aux!B1:B3)', "=SUMIF('Aux 2'!A1:A3;\"<>x\";'Aux 2'!B1:B3)",
        '=SUMIF(C1:C10;"Tom";Aux!A1)', '=SUMIF(A1:A10;">5";Nope!A1)', '=SUMIF(Nope!A1:A3;">5")',
        '=SUMIFS(A1:A10;C1:C10;"Tom";B1:B10;"Bananas")', '=SUMIFS(A1:A10;C1:C10;"Tom";B1:B9;"Bananas")',
        '=SUMIFS(A1:A10;C1:C11;"Tom")', '=SUMIFS(A1:A9;C1:C10;"Tom")', '=SUMIFS(A1:A10;C1:C10;"Sarah";C1:C10;"Tom")',
        '=SUMIFS(A1:A10;A1:A10;">3";A1:A10;"<15")', '=SUMIFS(A1:B5;D1:E5;">0")', '=SUMIFS(A1:E1;A2:E2;"<>")',
        '=SUMIFS(A1:A10;B1:E10;"x")', '=SUMIFS(A:A;C:C;"Tom")', '=SUMIFS(A:A;C1:C10;"Tom")',
        '=SUMIFS(Aux!B1:B3;Aux!A1:A3;">1")', '=SUMIFS(A1:A3;Aux!A1:A3;">1")', '=SUMIFS(A1:A10;C1:C10)',
        '=SUMIFS(A1:A10)', '=SUMIFS(D1:D10;C1:C10;"Tom")', '=SUMIFS(A1:A10;D1:D10;TRUE)', '=SUMIFS(A1:A10;D1:D10;1)',
        '=SUMIFS(A1:A10;D1:D10;0)', '=SUMIFS(A1:A10;E1:E10;0)', '=SUMIFS(A1:A10;E1:E10;"")', '=SUMIFS(A1:A10;E1:E10;"=")',
        '=COUNTIFS(A1:A10;">5")', '=COUNTIFS(A1:A10;">5";C1:C10;"Tom")', '=COUNTIFS(A1:A10;">5";C1:C9;"Tom")',
        '=COUNTIFS(A1:A10;">5";C1:C10;"Tom";B1:B10;"B*")', '=COUNTIFS(A1:B5;"Apples")', '=COUNTIFS(A:A;">5")',
        '=COUNTIFS(A:A;">5";C:C;"Tom")', '=COUNTIFS(A1:A10;">5";C:C;"Tom")', '=COUNTIFS(D1:D10;TRUE)',
        '=COUNTIFS(D1:D10;"<>")', '=COUNTIFS(E1:E10;0)', '=COUNTIFS(E1:E10;"")', '=COUNTIFS(F1:F10;">2024-01-01")',
        '=COUNTIFS(F1:F10;F1)', '=COUNTIFS(A1:A10;">5";A1:A10;"<20";A1:A10;"<>12")', '=COUNTIFS(A1:A10)',
        '=COUNTIFS(A1:A10;">5";C1:C10)', '=COUNTIFS(Aux!A1:A3;">1";Aux!B1:B3;">10")',
        '=AVERAGEIFS(A1:A8;C1:C8;"Tom")', '=AVERAGEIFS(A1:A7;C1:C7;"Tom";B1:B7;"Bananas")', '=AVERAGEIFS(A1:A7;C1:C8;"Tom")',
        '=AVERAGEIFS(A1:A7;C1:C7;"Nobody")', '=AVERAGEIFS(B1:B7;C1:C7;"Tom")', '=AVERAGEIFS(E1:E8;C1:C8;"Sarah")',
        '=AVERAGEIFS(E1:E8;C1:C8;"tom")', '=AVERAGEIFS(D1:D3;A1:A3;">1")', '=AVERAGEIFS(A1:A10;C1:C10;"Tom")',
        '=AVERAGEIFS(A1:B4;D1:E4;">0")', '=AVERAGEIFS(A:A;C:C;"Tom")', '=AVERAGEIFS(Aux!B1:B3;Aux!A1:A3;">1")',
        '=AVERAGEIFS(A1:A7;D1:D7;TRUE)', '=AVERAGEIFS(A1:A7;D1:D7;0)', '=AVERAGEIFS(A1:A7;A1:A7;">3";A1:A7;"<15")',
        '=AVERAGEIFS(A1:A7)', '=AVERAGEIFS(A1:A7;C1:C7)',
        # nesting
        '=SUMIF(A1:A10;">5")+COUNTIFS(A1:A10;">5")', '=IF(COUNTIFS(C1:C10;"Tom")>2;SUMIFS(A1:A10;C1:C10;"Tom");0)',
        '=ROUND(AVERAGEIFS(E1:E8;C1:C8;"Sarah");1)', '=SUMIF(A1:A10;">"&COUNTIFS(C1:C10;"Tom"))',
        '=SUMIFS(A1:A10;C1:C10;IF(J1>1;"Tom";"Sarah"))',
    ]
    return formulas


def build_workbook(path, formulas):
    workbook = Workbook()
    sheet = workbook.active
    sheet.title = 'S'
    for row_number, row in enumerate(ROWS, start=1):
        for column_number, value in enumerate(row, start=1):
            if value is not None:
                sheet.cell(row=row_number, column=column_number, value=value)
    for row_number, value in enumerate([5, 'Tom', 'a*', 0, None, '', True], start=1):
        if value is not None:
            sheet.cell(row=row_number, column=10, value=value)
    for number, formula in enumerate(formulas, start=1):
        sheet.cell(row=number, column=12, value=formula)
    aux = workbook.create_sheet('Aux')
    for row_number, (left, right) in enumerate([(1, 10), (2, 20), (3, 30)], start=1):
        aux.cell(row=row_number, column=1, value=left)
        aux.cell(row=row_number, column=2, value=right)
    aux2 = workbook.create_sheet('Aux 2')
    for row_number, (left, right) in enumerate([('x', 1), ('y', 2), ('X', 4)], start=1):
        aux2.cell(row=row_number, column=1, value=left)
        aux2.cell(row=row_number, column=2, value=right)
    workbook.save(path)
    workbook.close()


FUNCTIONS_START = re.compile(r'\n    def _\d+_\d+_\d+')


def generated_functions(class_text):
    return class_text[FUNCTIONS_START.search(class_text).start():]


def evaluate(class_text, uid):
    namespace = {}
    exec(compile(class_text, '<translation>', 'exec'), namespace)
    return namespace['ExcelInPython']().exec_function_in(uid)


def formulas_one_by_one(excel, formulas):
    out('== every formula translated and evaluated on its own')
    translatable = []
    for number, formula in enumerate(formulas, start=1):
        context = Context()
        context._titles = excel.get_titles()
        context._sheets_size = excel.get_sheets_size()
        cell = Cell('S', 'L', str(number))
        try:
            CellTranslator.translate(cell, excel, context)
            class_text = context.build_class()
        except BaseException as error:  # noqa
            out(f'{number:04d} {formula} -> translation raised {type(error).__name__}: {error}')
            continue
        translatable.append(formula)
        functions = generated_functions(class_text)
        own = [line.strip() for line in functions.split('\n') if line.startswith('        return')
               and ('lambda' in line or '_sum_if' in line or 'ifs(' in line)]
        out(f'{number:04d} {formula} -> functions={digest(functions)} {attempt(lambda: evaluate(class_text, cell.uid))}')
        for line in own:
            out('      ', line)
    return translatable


def facade_run(directory, formulas):
    out('== Parser / Executor on a workbook holding the', len(formulas), 'formulas that translate')
    path = os.path.join(directory, 'valid.xlsx')
    build_workbook(path, formulas)
    translation_path = os.path.join(directory, 'valid_translation.py')
    try:
        parser = Parser().set_excel_file_path(path).disable_safety_check()
        text = parser.get_translation()
        parser.write_translation(translation_path)
    except BaseException as error:  # noqa
        out(f'whole-file translation raised {type(error).__name__}: {error}')
        return
    out('generated functions digest', digest(generated_functions(text)))
    executor = Executor().set_executed_class(class_file=translation_path)
    for number, formula in enumerate(formulas, start=1):
        out(f'{number:04d} {formula} ->', attempt(lambda: executor.get_cell(Cell('S', 'L', str(number))).value))
    out('-- after set_cells')
    executor.set_cells([Cell('S', 'A', '1', value=50), Cell('S', 'A', '8', value=4), Cell('S', 'C', '3', value='Sarah'),
                        Cell('S', 'J', '1', value=10), Cell('S', 'J', '2', value='sarah'), Cell('S', 'J', '3', value='*s'),
                        Cell('S', 'B', '9', value='apples'), Cell('S', 'E', '3', value=2), Cell('Aux', 'A', '1', value=7),
                        Cell('S', 'D', '4', value=True), Cell('S', 'G', '6', value='a3')])
    for number, formula in enumerate(formulas, start=1):
        out(f'{number:04d} {formula} ->', attempt(lambda: executor.get_cell(Cell('S', 'L', str(number))).value))


def main():
    direct_calls('importable class', Direct())
    direct_calls('template', template_instance())
    directory = tempfile.mkdtemp(prefix='c12_demo_')
    try:
        path = os.path.join(directory, 'criteria.xlsx')
        formulas = formula_list()
        build_workbook(path, formulas)
        translatable = formulas_one_by_one(Excel.parse(path), formulas)
        facade_run(directory, translatable)
    finally:
        shutil.rmtree(directory, ignore_errors=True)
    out('DIGEST', digest('\n'.join(LINES)), 'lines', len(LINES))
    return 0


if __name__ == '__main__':
    sys.exit(main())
