"""Equivalence demo for r2: runtime helpers _find_error_in_list / _iferror / _ifs (both copies).

Calls the helpers directly on the importable base class and on a class generated from a workbook, with many
arguments (error strings, empty cells, lists, odd-length IFS lists, callables that raise, objects with
custom __eq__ / __bool__), and evaluates IF / IFS / IFERROR / MIN / MAX / COUNTBLANK formulas through the Executor.
"""
import datetime
import hashlib
import os
import shutil
import tempfile

from openpyxl import Workbook

from excel2pycl import Parser, Executor, Cell
from excel2pycl.src.object_loader import load_module
from excel2pycl.src.utilities.abstract_excel_in_python_class import AbstractExcelInPython

ERRORS = ['#NUM!', '#DIV/0!', '#N/A', '#NAME?', '#NULL!', '#REF!', '#VALUE!']
NOT_ERRORS = ['#ERROR!', '#DIV0!', '#n/a', ' #N/A', '#N/A ', '', 'text', '0', '#']


class Hand(AbstractExcelInPython):
    pass


class EqualsNA:
    """equal to '#N/A' but falsy"""
    def __eq__(self, other):
        return other == '#N/A'

    def __bool__(self):
        return False

    def __repr__(self):
        return 'EqualsNA()'


class EqualsRef:
    def __eq__(self, other):
        return other == '#REF!'

    def __hash__(self):
        return 1

    def __repr__(self):
        return 'EqualsRef()'


class EqRaises:
    def __eq__(self, other):
        raise ArithmeticError('no eq')

    def __repr__(self):
        return 'EqRaises()'


class BoolRaises:
    def __bool__(self):
        raise OverflowError('no bool')

    def __repr__(self):
        return 'BoolRaises()'


class NAWhoseBoolRaises(str):
    def __bool__(self):
        raise OverflowError('no bool')


class MyBase(BaseException):
    pass


def show(value):
    if isinstance(value, list):
        return '[' + ', '.join(show(i) for i in value) + ']'
    return f'{type(value).__name__}:{value!r}'


def call(function, *args):
    try:
        return show(function(*args))
    except BaseException as e:  # noqa
        return 'RAISED ' + e.__class__.__name__


def raiser(exception):
    def function():
        raise exception
    return function


def helper_cases(instance):
    empty = instance.EmptyCell()
    scalars = ERRORS + NOT_ERRORS + [0, 1, -1, 2.5, 0.0, True, False, None, empty, datetime.datetime(2024, 2, 29),
                                     [], ['#N/A'], [1, 2], ('#N/A',), EqualsNA(), EqualsRef(), BoolRaises(),
                                     EqRaises(), NAWhoseBoolRaises('#N/A'), NAWhoseBoolRaises('x'), float('nan')]
    lines = []

    # _find_error_in_list
    lists = [[], [1, 2, 3], ['a', '#N/A', '#REF!'], ['#REF!', '#N/A'], [empty, 0, '#VALUE!'], [None, [], '#NUM!'],
             [EqualsNA(), '#REF!'], [EqualsRef(), '#N/A'], ['x', EqRaises(), '#N/A'], ['#N/A', EqRaises()],
             ('#NAME?', 1), 'abc', '#N/A', 5, None, iter(['q', '#NULL!', '#N/A']), range(3), {'#DIV/0!': 1},
             [['#N/A']], [float('nan'), '#DIV/0!']]
    lists += [[s] for s in scalars]
    for item in lists:
        shown = 'iterator' if hasattr(item, '__next__') else show(item) if isinstance(item, list) else repr(item)
        lines.append(f'find_error {shown} -> {call(instance._find_error_in_list, item)}')

    # _iferror: value returning callables
    for fallback in ['fb', 0, None, '#N/A', empty]:
        for value in scalars:
            lines.append(f'iferror value {show(value)} fallback {show(fallback)} -> '
                         f'{call(instance._iferror, lambda value=value: value, fallback)}')
    # _iferror: raising callables
    for exception in [ZeroDivisionError(), TypeError('t'), ValueError('v'), KeyError('k'), IndexError(),
                      AttributeError(), RecursionError(), instance.ExcelInPythonException('e'), StopIteration(),
                      KeyboardInterrupt(), SystemExit(3), GeneratorExit(), MyBase(), MemoryError()]:
        lines.append(f'iferror raising {exception.__class__.__name__} -> '
                     f'{call(instance._iferror, raiser(exception), "fallback")}')
    for bad_callable in [None, 5, 'text', lambda x: x]:
        lines.append(f'iferror not callable {bad_callable if not callable(bad_callable) else "lambda x"} -> '
                     f'{call(instance._iferror, bad_callable, "fallback")}')
    # nested
    lines.append('iferror nested -> ' + call(
        instance._iferror, lambda: instance._iferror(lambda: 1 / 0, '#N/A'), instance._iferror(lambda: 7, 'x')))
    lines.append('iferror nested 2 -> ' + call(
        instance._iferror, lambda: instance._iferror(lambda: 1 / 0, 'inner'), 'outer'))
    lines.append('iferror of ifs -> ' + call(instance._iferror, lambda: instance._ifs([False, 1, 0, 2]), 'none'))
    lines.append('iferror of odd ifs -> ' + call(instance._iferror, lambda: instance._ifs([False, 1, True]), 'odd'))

    # _ifs
    ifs_lists = [
        [], [True, 'a'], [False, 'a'], [False, 'a', True, 'b'], [False, 'a', False, 'b'], [0, 'a', 1, 'b', 1, 'c'],
        [True], [False], [False, 'a', True], [False, 'a', False], [True, 'a', True], [1, 2, 3],
        ['', 'a', 'x', 'b'], [empty, 'a', 0.0, 'b', 0.1, 'c'], [None, 1, [], 2, [0], 3],
        [True, '#N/A'], ['#N/A', 'a'], [False, '#REF!', True, 'b'], [True, 'a', False, '#VALUE!'],
        [False, 'a', '#DIV/0!'], [BoolRaises(), 'a'], [False, 'a', BoolRaises(), 'b'], [True, 'a', BoolRaises(), 'b'],
        [EqualsNA(), 'a', True, 'b'], [EqRaises(), 'a'], [True, EqRaises()], ['x', 'y', 'z', 'w'],
        [float('nan'), 'nan'], [-1, 'neg'], [datetime.datetime(2020, 1, 1), 'date'], [0, 'z', 0, 'z', 0, 'z', 0, 'z', 2, 'last'],
        (True, 'tuple'), (False, 'tuple'), 'ab', '', None, 3, {True: 1}, range(0), range(1, 3), iter([True, 'it']),
    ]
    for item in ifs_lists:
        shown = 'iterator' if hasattr(item, '__next__') else show(item) if isinstance(item, list) else repr(item)
        lines.append(f'ifs {shown} -> {call(instance._ifs, item)}')

    # other users of _find_error_in_list
    for name in ['_min', '_max', '_count_blank']:
        for item in [[1, 2, 3], [3, '#N/A', 1], ['#REF!', '#N/A'], ['', None, 'a', empty], [], [empty], ['x'],
                     [1.5, True, '2'], [EqualsNA(), 4], [4, EqualsRef(), '#N/A']]:
            lines.append(f'{name} {show(item)} -> {call(getattr(instance, name), item)}')
    return lines


ROWS = [
    [1, 0, '#N/A', '=IFERROR(A1/B1,"div")'],
    [1, 2, '#REF!', '=IFERROR(A2/B2,"div")'],
    [1, 2, '#VALUE!', '=IFERROR(C3,"err")'],
    [1, 2, 'fine', '=IFERROR(C4,"err")'],
    [1, 2, None, '=IFERROR(C5,"err")'],
    [95, 2, None, '=IFS(A6>89,"A",A6>79,"B")'],
    [85, 2, None, '=IFS(A7>89,"A",A7>79,"B")'],
    [5, 2, None, '=IFS(A8>89,"A",A8>79,"B")'],
    [5, 2, None, '=IFS(A9>89,"A",A9>1)'],
    [5, 2, None, '=IFERROR(IFS(A10>89,"A",A10>1),"odd")'],
    [5, 2, '#NUM!', '=IFS(A11>1,C11,TRUE,"else")'],
    [5, 2, '#NUM!', '=IFS(A12>10,C12,TRUE,"else")'],
    [5, 2, '#NUM!', '=IFERROR(IFS(A13>10,C13,TRUE,"else"),"contained")'],
    [5, 2, 'x', '=IFERROR(IFS(A14>10,1,B14>10,2),"no match")'],
    [5, 2, 'x', '=IF(IFERROR(A15/0,0)=0,IFS(B15=2,"two",TRUE,"other"),"never")'],
    [5, 2, 'x', '=IFERROR(MIN(A1:A15),"minerr")&IFERROR(MAX(C1:C4),"maxerr")'],
    [5, 2, 'x', '=IFERROR(MIN(C1:C4),"minerr")'],
    [5, 2, 'x', '=IFERROR(COUNTBLANK(C1:C17),"cb")'],
    [5, 2, 'x', '=IFERROR(COUNTBLANK(A1:B18),"cb")'],
    [5, 2, 'x', '=IFERROR(A19+C19,IFERROR(A19/0,IFERROR(C19*1,"deepest")))'],
    [5, 2, 'x', '=IFERROR(VLOOKUP(77,A1:B20,2),"nf")'],
    [5, 2, 'x', '=IFERROR(MATCH("zz",C1:C21,0),"nomatch")'],
]

OVERRIDES = [
    [],
    [Cell(0, 1, r, value=0) for r in range(22)],
    [Cell(0, 0, r, value=100) for r in range(22)],
    [Cell(0, 0, r, value='#NAME?') for r in range(22)],
    [Cell(0, 2, r, value='#NULL!') for r in range(22)],
    [Cell(0, 2, r, value=None) for r in range(22)] + [Cell(0, 0, r, value=-1) for r in range(22)],
]


def main():
    out = []
    tmp = tempfile.mkdtemp(prefix='r2demo')
    try:
        xlsx = os.path.join(tmp, 'book.xlsx')
        wb = Workbook()
        ws = wb.active
        for row in ROWS:
            ws.append(row)
        wb.save(xlsx)
        py_file = os.path.join(tmp, 'book_translation.py')
        Parser().set_excel_file_path(xlsx).write_translation(py_file)

        generated = load_module(py_file).ExcelInPython()
        hand = Hand()
        hand_lines = helper_cases(hand)
        generated_lines = helper_cases(generated)
        out.append(f'base class and generated class agree: {hand_lines == generated_lines}')
        out += ['base ' + line for line in hand_lines]
        out += ['generated ' + line for line in generated_lines]

        for number, override in enumerate(OVERRIDES):
            executor = Executor().set_executed_class(class_file=py_file)
            if override:
                executor.set_cells(override)
            for row in range(len(ROWS)):
                try:
                    result = show(executor.get_cell(Cell(0, 3, row)).value)
                except BaseException as e:  # noqa
                    result = 'RAISED ' + e.__class__.__name__
                out.append(f'override {number} D{row + 1} -> {result}')
    finally:
        shutil.rmtree(tmp, ignore_errors=True)

    body = '\n'.join(out)
    print(body)
    print('LINES', len(out), 'DIGEST', hashlib.sha256(body.encode()).hexdigest())


if __name__ == '__main__':
    main()
