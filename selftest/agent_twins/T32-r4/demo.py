"""
Equivalence demo for r4 (Excel reader: safety scan with precompiled class-level patterns, parse loop restructured).

Calls Excel._get_suspicious_constructions on many values, parses real workbooks (hostile text, sheet titles with
quotes, ragged rows, array formulas) and a fake workbook object, and runs the Parser facade with the safety check on
and off. Prints a deterministic digest.
"""
import builtins
import datetime
import hashlib
import os
import sys
import tempfile
import warnings

warnings.simplefilter('ignore')

from openpyxl import Workbook
from openpyxl.worksheet.formula import ArrayFormula

import excel2pycl.src.excel as excel_module
from excel2pycl import Parser, Executor, Cell
from excel2pycl.src.excel import Excel

LINES = []


SCRUB = []  # run-specific temp paths never reach the digest


def out(*parts):
    line = ' '.join(str(p) for p in parts)
    for path in SCRUB:
        line = line.replace(path, '<tmp>')
    LINES.append(line)


def show(value):
    return f'{type(value).__name__}:{value!r}'


def attempt(label, func):
    try:
        out(label, '->', func())
    except Exception as exc:  # noqa
        out(label, '!!', type(exc).__name__, str(exc)[:1500])


class Weird:
    def __str__(self):
        return 'weird(1) and SUM(2) and x_1(3)'


class Broken:
    def __str__(self):
        raise RuntimeError('no string for you')


VALUES = [
    '', ' ', 'plain', 'SUM(A1)', '=SUM(A1:A3)', 'sum(A1)', 'Sum(A1)', 'sUM(1)', 'eval(1)', '__import__("os")',
    "__import__('os').system('x')", 'a()', 'A()', '()', '(x)', 'f(', 'f)', 'f (1)', 'f\n(1)', 'f(\n)', 'f(1\n)', 'f(1)\ng(2)',
    'SUM(eval(1))', 'eval(SUM(1))', 'SUM(1)eval(2)', 'xSUM(1)', 'SUMx(1)', 'SUM1(1)', '1SUM(1)', 'SUM_(1)', '_SUM(1)',
    'S(1)', 's(1)', '1(1)', '_(1)', '__(__)', 'A1(B2)', 'a1(B2)', 'IF(a(1);b(2);C(3))', 'f(g(h(1)))', 'f(1))', 'f((1)',
    'f(1)(2)', 'F(1)(2)', 'f()()', 'open("/etc/passwd").read()', 'os.system("rm -rf /")', 'lambda: print(1)',
    'x = exec("1")', 'ЙЦУ(1)', 'йцу(1)', 'fйцу(1)', 'é(1)', '١٢٣(1)', 'a١(1)', 'A١(1)', 'Ａ(1)', 'ſ(1)', 'K(1)', 'K(1)',
    'SUM(1) + MAX(2) - min(3)', 'text with (parens) only', 'name (x)', 'tab\tf(1)', 'f(1)' * 50, 'A' * 2000 + '(1)',
    'a' * 2000 + '(1)', '(' * 50 + ')' * 50, 'f(' * 30 + ')' * 30, 'getattr(self, "_arguments")', 'self._cell_preprocessor("_0_0_0")',
    'ROUND(1.5;0)', 'round(1.5)', 'TRUE()', 'true()', 'False()', 'TODAY()', 'today()', 'NOW()', 'now ()', 'f(\r)', 'f(\x0b)',
    'f(\x1c)', 'f(\x85)', 'f( )', "'f(1)'", '"f(1)"', 'f(1)' + '\x00', 'f()g()H()i_1()J2()',
    0, 1, -1, 1.5, float('nan'), True, False, None, 10 ** 40, datetime.datetime(2020, 1, 2, 3, 4, 5), datetime.date(2020, 1, 2),
    datetime.time(1, 2), datetime.timedelta(1), b'bytes(1)', ('tuple(1)',), ['list(1)'], {'dict(1)': 'SUM(1)'}, {1, 2},
    range(3), Weird(), Broken(), ArrayFormula('A1:A2', '=SUM(B1:B2)'), ArrayFormula('A1', '=evil(1)'), complex(1, 2), print,
    ValueError('boom(1)'), type,
]
for number, value in enumerate(VALUES):
    label = type(value).__name__ + ':' + (repr(value)[:70] if not isinstance(value, (Weird, Broken, ArrayFormula)) else '<obj>')
    attempt(f'A {number} {label}', lambda: repr(Excel._get_suspicious_constructions(value)))
    attempt(f'A {number} via instance', lambda: repr(Excel({'data': [], 'titles': [], 'suspicious_cells': {},
                                                         'sheets_size': []})._get_suspicious_constructions(value)))

# the patterns must not depend on re-module state
import re
re.purge()
attempt('A after purge', lambda: repr(Excel._get_suspicious_constructions('f(1) SUM(2) g(3)')))


def describe(excel):
    data = excel._data
    digest = hashlib.sha256(repr(data).encode()).hexdigest()[:16]
    shape = [[len(row) for row in sheet] for sheet in data]
    if sum(len(s) for s in shape) > 60:
        shape = hashlib.sha256(repr(shape).encode()).hexdigest()[:16]
    return (f'titles={excel.get_titles()!r} sizes={excel.get_sheets_size()!r} suspicious={excel._suspicious_cells!r} '
            f'shape={shape} data={digest}')


def is_safe(excel):
    excel.is_safe()
    return 'safe'


# ---------------------------------------------------------------- part B: fake workbook (array formulas, ragged rows)
class FakeCell:
    def __init__(self, value, column_letter, row):
        self.value, self.column_letter, self.row = value, column_letter, row


class CountingCell:
    """value is a read-only property, like on openpyxl's ReadOnlyCell"""
    def __init__(self, value, column_letter, row):
        self._value, self.column_letter, self.row = value, column_letter, row

    @property
    def value(self):
        return self._value


class FakeSheet:
    def __init__(self, title, rows):
        self.title, self._rows, self.reset = title, rows, 0

    def reset_dimensions(self):
        self.reset += 1

    def iter_rows(self):
        letters = 'ABCDEFGHIJ'
        for row_number, row in enumerate(self._rows, start=1):
            yield tuple((FakeCell if (row_number + i) % 2 else CountingCell)(v, letters[i], row_number)
                        for i, v in enumerate(row))


class FakeBook:
    def __init__(self, sheets):
        self.worksheets, self.closed = sheets, 0

    def close(self):
        self.closed += 1


FAKE_BOOKS = {
    'arrays': [FakeSheet("it's", [[ArrayFormula('A1:A2', '  =SUM(B1:B2)  '), 1, 'x'],
                                  [ArrayFormula('A2', '=evil(1)+SUM(2)'), ArrayFormula('B2', '\n=A1\t')],
                                  [], [None, None, None, None, 'e(1)'], [0, '', False, 0.0]]),
               FakeSheet('second', []), FakeSheet('third', [[]]), FakeSheet('"q"', [['f(1)', 'SUM(1)', 'g(2) h(3)']])],
    'empty': [],
    'wide': [FakeSheet('w', [['a'] * 10, ['b'], ['c'] * 3, ['d'] * 10, ['e'] * 9])],
    'bad array': [FakeSheet('b', [[ArrayFormula('A1', None)]])],
    'broken str': [FakeSheet('b', [['ok(1)', Broken()]])],
}
real_load_workbook = excel_module.load_workbook
for name, sheets in FAKE_BOOKS.items():
    calls = []
    book = FakeBook(sheets)

    def fake_load_workbook(*args, **kwargs):
        calls.append((args, sorted(kwargs.items())))
        return book
    excel_module.load_workbook = fake_load_workbook
    try:
        attempt(f'B fake {name!r} parse', lambda: describe(Excel.parse('whatever.xlsx')) + f' data={Excel.parse("whatever.xlsx")._data!r}')
        attempt(f'B fake {name!r} is_safe', lambda: is_safe(Excel.parse('whatever.xlsx')))
        out(f'B fake {name!r} load calls', calls[:1], 'closed', book.closed > 0, 'resets', [s.reset > 0 for s in sheets])
    finally:
        excel_module.load_workbook = real_load_workbook

# ---------------------------------------------------------------- part C: real workbooks
CANARY_FILE = os.path.join(tempfile.gettempdir(), 'e2p_r4_canary_should_never_exist')
TEXTS = [v for v in VALUES if isinstance(v, str) and v and not v.startswith('=') and '\x00' not in v and '\x0b' not in v
         and '\x1c' not in v and '\r' not in v] + [
    f"open({CANARY_FILE!r}, 'w').close()", "setattr(__import__('builtins'), 'E2P_R4_CANARY', 1)"]

with tempfile.TemporaryDirectory() as tmp:
    SCRUB.append(tmp)
    xlsx = os.path.join(tmp, 'book.xlsx')
    generated = os.path.join(tmp, 'generated.py')

    def run_parser(safety, entry=None, probe=(0, 0, 0)):
        parser = Parser().set_excel_file_path(xlsx)
        parser = parser.enable_safety_check() if safety else parser.disable_safety_check()
        if entry is not None:
            parser.set_entrypoint_cell(entry)
        text = parser.write_translation(generated).get_translation()
        executor = Executor().set_executed_class(class_file=generated)
        return f'{show(executor.get_cell(Cell(*probe)).value)} text {hashlib.sha256(text.encode()).hexdigest()[:16]}'

    # one hostile / harmless text per workbook: accepted or rejected, and the value when accepted
    for number, text in enumerate(TEXTS):
        wb = Workbook()
        sheet = wb.active
        sheet.title = 'S'
        sheet['A1'].value = text
        sheet['A1'].data_type = 's'
        sheet['B1'] = '=A1'
        wb.save(xlsx)
        wb.close()
        attempt(f'C text {number} {text[:60]!r} parse', lambda: describe(Excel.parse(xlsx)))
        for safety in (True, False):
            attempt(f'C text {number} safety={safety}', lambda: run_parser(safety, probe=(0, 1, 0)))

    # formulas containing call-like text in literals and lower-case function names
    FORMULAS = ['=SUM(1;2)', '="eval(1)"', '="SUM(1)"', '=IF(TRUE;"f(1)";"G(2)")', '=sum(1;2)', '=LEFT("open(1)";4)',
                '=CONCATENATE("a(";")")', '="a(" & "b)"', '=A2', '=SUM(A2:A3)+MAX(A2:A3)', '=ROUND(1.234;1)&"x()"']
    for number, formula in enumerate(FORMULAS):
        wb = Workbook()
        sheet = wb.active
        sheet.title = 'S'
        sheet['A1'] = formula
        sheet['A2'] = 2
        sheet['A3'] = 3
        wb.save(xlsx)
        wb.close()
        attempt(f'C formula {formula!r} parse', lambda: describe(Excel.parse(xlsx)))
        for safety in (True, False):
            attempt(f'C formula {formula!r} safety={safety}', lambda: run_parser(safety))
            attempt(f'C formula {formula!r} safety={safety} entry', lambda: run_parser(safety, entry=Cell('S', 'A', '1')))

    # many sheets: order of the report, titles with quotes, ragged rows, never written cells, array formulas
    wb = Workbook()
    first = wb.active
    first.title = "it's"
    first['A1'] = 'ok'
    first['C1'] = 'evil(1)'
    first['B2'] = 'SUM(1) fine'
    first['E5'] = 'a(1) B(2) c(3)'
    first['A7'] = 7
    first['J3'] = 'far()'
    first['A9'] = ArrayFormula('A9:A10', '=SUM(A7:A7)')
    second = wb.create_sheet('quo"te')
    second['B2'] = '__import__("os")'
    second['A1'] = datetime.datetime(2020, 1, 2)
    second['A3'] = True
    wb.create_sheet('Empty')
    fourth = wb.create_sheet("f(1)")
    fourth['A1'] = 1.5
    fourth['D2'] = 'last(1)'
    wb.save(xlsx)
    wb.close()
    attempt('C many parse', lambda: describe(Excel.parse(xlsx)) + f' data={Excel.parse(xlsx)._data!r}')
    attempt('C many is_safe', lambda: is_safe(Excel.parse(xlsx)))
    for safety in (True, False):
        attempt(f'C many safety={safety}', lambda: run_parser(safety, probe=(0, 2, 0)))
        attempt(f'C many safety={safety} entry', lambda: run_parser(safety, entry=Cell("it's", 'A', '9'), probe=(0, 0, 8)))

    # a clean workbook passes the check and gives the same class with and without it
    wb = Workbook()
    sheet = wb.active
    sheet['A1'] = 'SUM(1) is a function'
    sheet['A2'] = '=SUM(B1:B3)'
    sheet['B1'] = 1
    sheet['B3'] = 3
    sheet['H9'] = 'end'
    wb.save(xlsx)
    wb.close()
    attempt('C clean parse', lambda: describe(Excel.parse(xlsx)) + f' data={Excel.parse(xlsx)._data!r}')
    for safety in (True, False):
        attempt(f'C clean safety={safety}', lambda: run_parser(safety, probe=(0, 0, 1)))
    attempt('C missing file', lambda: describe(Excel.parse(os.path.join(tmp, 'missing.xlsx'))))
    out('temp files before cleanup', sorted(os.listdir(tmp)))

out('canary attribute set', hasattr(builtins, 'E2P_R4_CANARY'), 'canary file exists', os.path.exists(CANARY_FILE))
out('temp dir removed', not os.path.exists(tmp))
print('\n'.join(LINES))
print('DIGEST', hashlib.sha256('\n'.join(LINES).encode()).hexdigest(), 'lines', len(LINES))
sys.exit(0)
