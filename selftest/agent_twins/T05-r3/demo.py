"""Equivalence demo for r3 (_compare: the conversion ladder int -> float -> date/datetime -> text).

Calls _compare of BOTH copies of the runtime class (AbstractExcelInPython, and the ExcelInPython
class generated from the template by a real translation) with the full cross product of ~45
operands (ints, floats with fractions, signs, nan/inf, bools, numeric/non-numeric texts, dates,
date-times, midnight date-times, blank cells, None, Decimal, Fraction, huge ints, lists, bytes,
complex, objects with failing/recording conversions) and 6 operators + unknown/non-text operators.
Prints for every pair the results (value with its type, or exception class and message), the
trace of conversion calls made on recording operands, and the values of comparison formulas in
a translated workbook.  The output must be identical before and after the refactoring.
"""
import warnings
warnings.simplefilter("ignore")
import datetime
import hashlib
import os
import tempfile
from decimal import Decimal
from fractions import Fraction

from openpyxl import Workbook

from excel2pycl import Parser, Executor, Cell
from excel2pycl.src.object_loader import load_module
from excel2pycl.src.utilities.abstract_excel_in_python_class import AbstractExcelInPython

OUT = []
TRACE = []


def emit(*parts):
    OUT.append(' '.join(str(p) for p in parts))


class Concrete(AbstractExcelInPython):
    pass


class Recorder:
    """operand that records every conversion / comparison made on it"""

    def __init__(self, name, as_int=None, as_float=None, as_str='rec'):
        self.name, self.as_int, self.as_float, self.as_str = name, as_int, as_float, as_str

    def __int__(self):
        TRACE.append(self.name + '.int')
        if self.as_int is None:
            raise TypeError('no int for ' + self.name)
        return self.as_int

    def __float__(self):
        TRACE.append(self.name + '.float')
        if self.as_float is None:
            raise ValueError('no float for ' + self.name)
        return self.as_float

    def __str__(self):
        TRACE.append(self.name + '.str')
        return self.as_str

    def __repr__(self):
        return 'Recorder(' + self.name + ')'

    def _cmp(self, kind, other):
        TRACE.append(self.name + '.' + kind)
        raise TypeError('recorder ' + self.name + ' does not compare')

    def __lt__(self, other): return self._cmp('lt', other)
    def __le__(self, other): return self._cmp('le', other)
    def __gt__(self, other): return self._cmp('gt', other)
    def __ge__(self, other): return self._cmp('ge', other)
    def __eq__(self, other): return self._cmp('eq', other)
    def __ne__(self, other): return self._cmp('ne', other)
    __hash__ = None


class BrokenDate(datetime.date):
    """a date whose promotion to a date-time fails half-way"""

    @property
    def month(self):
        raise ValueError('month unavailable')


class OverflowFloat:
    def __int__(self):
        raise TypeError('no int')

    def __float__(self):
        raise OverflowError('too large for float')

    def __repr__(self):
        return 'OverflowFloat()'


def operands(runtime):
    blank = runtime.EmptyCell
    return [
        ('0', 0), ('1', 1), ('-1', -1), ('2', 2), ('3', 3), ('10', 10), ('2**70', 2 ** 70), ('10**400', 10 ** 400),
        ('0.0', 0.0), ('-0.0', -0.0), ('2.0', 2.0), ('2.5', 2.5), ('-2.5', -2.5), ('0.1+0.2', 0.1 + 0.2), ('0.3', 0.3),
        ('1e308', 1e308), ('nan', float('nan')), ('inf', float('inf')), ('-inf', float('-inf')),
        ('True', True), ('False', False),
        ("''", ''), ("'0'", '0'), ("'2'", '2'), ("' 2 '", ' 2 '), ("'2.5'", '2.5'), ("'-2.5'", '-2.5'), ("'1e3'", '1e3'),
        ("'abc'", 'abc'), ("'ABC'", 'ABC'), ("'abd'", 'abd'), ("'10'", '10'), ("'2024-01-01'", '2024-01-01'),
        ("'2024-01-01 00:00:00'", '2024-01-01 00:00:00'), ("'nan'", 'nan'),
        ('date(2024,1,1)', datetime.date(2024, 1, 1)), ('date(2023,12,31)', datetime.date(2023, 12, 31)),
        ('dt(2024,1,1)', datetime.datetime(2024, 1, 1)), ('dt(2024,1,1,0,0,1)', datetime.datetime(2024, 1, 1, 0, 0, 1)),
        ('dt(2023,12,31,23,59)', datetime.datetime(2023, 12, 31, 23, 59)),
        ('date.min', datetime.date.min), ('dt.max', datetime.datetime.max),
        ('blank', blank()), ('None', None),
        ('Decimal(2.5)', Decimal('2.5')), ('Decimal(2)', Decimal('2')), ('Fraction(5,2)', Fraction(5, 2)),
        ('[]', []), ('[1]', [1]), ("b'2'", b'2'), ('2j', 2j), ('time(1,2)', datetime.time(1, 2)),
        ('timedelta(1)', datetime.timedelta(1)),
        ('BrokenDate', BrokenDate(2024, 1, 1)), ('OverflowFloat', OverflowFloat()),
        ('RecNum', Recorder('RecNum', as_int=2, as_float=2.5)), ('RecFloat', Recorder('RecFloat', as_float=2.5)),
        ('RecText', Recorder('RecText', as_str='abc')),
    ]


OPERATORS = ['<', '<=', '==', '!=', '>=', '>']


def show(value):
    if isinstance(value, bool):
        return 'T' if value else 'F'
    return type(value).__name__ + ':' + repr(value)


def call(runtime, operator, left, right):
    del TRACE[:]
    try:
        result = show(runtime._compare(operator, left, right))
    except Exception as exc:  # noqa
        result = 'E:' + type(exc).__name__ + '(' + str(exc)[:70] + ')'
    if TRACE:
        result += ' trace=' + ','.join(TRACE)
    return result


def cross(label, runtime):
    ops = operands(runtime)
    lines = []
    for lname, left in ops:
        for rname, right in ops:
            lines.append(f'{label} {lname} ? {rname} : ' + ' | '.join(call(runtime, op, left, right) for op in OPERATORS))
    # odd operators
    for operator in ['=', '<>', '', 'lt', None, 5, [], ('<',)]:
        for left, right in [(1, 2), (2.5, 2), ('a', 'b'), (datetime.date(2024, 1, 1), datetime.datetime(2024, 1, 1)),
                            (runtime.EmptyCell(), 0), (None, None), ('2', 2.5), (Recorder('L'), Recorder('R', as_int=1))]:
            lines.append(f'{label} operator {operator!r} on {left!r},{right!r} : ' + call(runtime, operator, left, right))
    # positional / keyword call styles
    lines.append(f'{label} keywords : ' + show(runtime._compare(operator='<', left_operand=1, right_operand=2.5)))
    try:
        runtime._compare('<', 1)
    except TypeError as exc:
        lines.append(f'{label} missing argument : TypeError')
    # inputs are not mutated
    d = datetime.date(2024, 5, 5)
    pair = [d, 'zzz']
    runtime._compare('<', pair[0], pair[1])
    lines.append(f'{label} operands untouched : {pair[0] is d} {type(pair[0]).__name__}')
    return lines


def lawfulness(label, runtime):
    """the statements of the property, counted (not asserted: the counts must simply not change)"""
    ops = [o for o in operands(runtime) if not isinstance(o[1], (Recorder, OverflowFloat))]
    counts = {'pairs': 0, 'errors': 0, 'exactly_one': 0, 'ne_is_not_eq': 0, 'le_is_not_gt': 0, 'ge_is_not_lt': 0,
              'mirror': 0}
    for _, a in ops:
        for _, b in ops:
            counts['pairs'] += 1
            try:
                lt, eq, gt = (runtime._compare(o, a, b) for o in ('<', '==', '>'))
                ne, le, ge = (runtime._compare(o, a, b) for o in ('!=', '<=', '>='))
                mirrored = runtime._compare('>', b, a)
            except Exception:  # noqa
                counts['errors'] += 1
                continue
            counts['exactly_one'] += (bool(lt) + bool(eq) + bool(gt)) == 1
            counts['ne_is_not_eq'] += bool(ne) == (not eq)
            counts['le_is_not_gt'] += bool(le) == (not gt)
            counts['ge_is_not_lt'] += bool(ge) == (not lt)
            counts['mirror'] += bool(lt) == bool(mirrored)
    return [f'{label} laws {sorted(counts.items())}']


def workbook(path):
    wb = Workbook()
    ws = wb.active
    ws.title = 'cmp'
    values = [1, 2, 2.5, -2.5, 0, '2', 'abc', 'ABC', '', None, True, datetime.date(2024, 1, 1),
              datetime.datetime(2024, 1, 1), datetime.datetime(2024, 1, 1, 12, 30), 0.1, 0.3, '0.30000000000000004']
    for i, v in enumerate(values):
        ws.cell(row=i + 1, column=1, value=v)
    row = 1
    cells = []
    for i in range(len(values)):
        for j in range(len(values)):
            for k, sym in enumerate(['<', '<=', '=', '<>', '>=', '>']):
                ws.cell(row=row, column=3 + k, value=f'=A{i + 1}{sym}A{j + 1}')
                cells.append((row - 1, 2 + k))
            row += 1
    ws.cell(row=1, column=10, value='=IF(A3>A2, "frac", "nofrac")')
    ws.cell(row=2, column=10, value='=(A15+A15+A15)=A16')
    ws.cell(row=3, column=10, value='=A10=0')
    ws.cell(row=4, column=10, value='=A10<A12')
    ws.cell(row=5, column=10, value='=2.5>2')
    ws.cell(row=6, column=10, value='="b">"a"')
    ws.cell(row=7, column=10, value='=A12=A13')
    cells += [(r, 9) for r in range(7)]
    wb.save(path)
    return cells


def main():
    tmp = tempfile.mkdtemp(prefix='r3demo')
    xlsx, out = os.path.join(tmp, 'cmp.xlsx'), os.path.join(tmp, 'cmp.py')
    cells = workbook(xlsx)
    Parser().set_excel_file_path(xlsx).write_translation(out)
    generated = load_module(out).ExcelInPython()
    concrete = Concrete()

    a = cross('class', concrete)
    b = cross('template', generated)
    emit('pairs per copy', len(a))
    emit('copies agree', [x.split(' ', 1)[1] for x in a] == [x.split(' ', 1)[1] for x in b])
    OUT.extend(a)
    OUT.extend(b)
    OUT.extend(lawfulness('class', concrete))
    OUT.extend(lawfulness('template', generated))

    ex = Executor().set_executed_class(class_file=out)
    line = []
    for r, c in cells:
        try:
            v = ex.get_cell(Cell(0, c, r)).value
            line.append(show(v))
        except Exception as exc:  # noqa
            line.append('E:' + type(exc).__name__)
        if len(line) == 6 * 17:
            emit('sheet', ' '.join(line))
            line = []
    emit('sheet tail', ' '.join(line))
    ex.set_cells([Cell('cmp', 'A', '1', value=2.5), Cell('cmp', 'A', '10', value='x'), Cell('cmp', 'A', '12', value=None)])
    emit('after override', ' '.join(show(ex.get_cell(Cell(0, c, r)).value) for r, c in cells[:6 * 17] + cells[-7:]))

    print('\n'.join(OUT))
    print('DIGEST', hashlib.sha256('\n'.join(OUT).encode()).hexdigest())


if __name__ == '__main__':
    main()
