"""Equivalence demonstration for r3 (comparison runtime helper `_compare`, both runtime copies).

Run as: PYTHONPATH=<tree> /venv/bin/python demo.py
Prints a deterministic digest of every result (values, exception class names and messages of the
library's own exception, emitted call sites); the output must be identical on the unchanged and
the refactored tree.
"""
import datetime
import decimal
import fractions
import hashlib
import itertools
import os
import shutil
import sys
import tempfile

import openpyxl

from excel2pycl import Parser, Executor, Cell
from excel2pycl.src.object_loader import load_module
from excel2pycl.src.utilities.abstract_excel_in_python_class import AbstractExcelInPython


class HandWritten(AbstractExcelInPython):
    pass


def show(value):
    return '%s:%r' % (type(value).__name__, value)


def call(function, *args):
    try:
        return show(function(*args))
    except BaseException as error:  # the class name of whatever is raised is part of the digest
        return 'raises ' + type(error).__name__


LINES = []


def emit(line):
    LINES.append(line)
    print(line)


D = datetime.datetime

DATA_ROWS = [
    (datetime.date(2024, 1, 1), D(2024, 1, 1)),
    (datetime.date(2024, 1, 1), D(2024, 1, 1, 1, 10, 10)),
    (None, D(2024, 1, 1)),
    (5, 5.0),
    (5, '5'),
    ('5', '05'),
    ('abc', 'ABC'),
    ('abc', 3),
    (2.5, '2.5'),
    (True, 1),
    ('', None),
    ('10', '9'),
    (1e308, '1e309'),
    (D(2024, 1, 1), 45292),
    (D(2023, 12, 31, 23, 59), datetime.date(2024, 1, 1)),
]
OPERATORS = ['=', '<>', '<', '<=', '>', '>=']


def build_workbook(path):
    book = openpyxl.Workbook()
    sheet = book.active
    sheet.title = 'Cmp'
    formulas = []
    for row_index, (left, right) in enumerate(DATA_ROWS, start=1):
        if left is not None:
            sheet.cell(row=row_index, column=1, value=left)
        if right is not None:
            sheet.cell(row=row_index, column=2, value=right)
        for offset, operator in enumerate(OPERATORS):
            formula = '=A%d%sB%d' % (row_index, operator, row_index)
            sheet.cell(row=row_index, column=3 + offset, value=formula)
            formulas.append((row_index - 1, 2 + offset, formula))
    extra = ['=IF(A4>=B4,"ge","lt")', '=IF(A8<B8,1,2)', '=1<2', '="a"<"B"', '=DATE(2024,1,1)=B1', '=A1<TODAY()',
             '=(A4+1)>B4', '=A5&"x"="5x"', '=IF(A1=B1,IF(A2=B2,1,2),3)']
    for index, formula in enumerate(extra):
        sheet.cell(row=20 + index, column=1, value=formula)
        formulas.append((19 + index, 0, formula))
    book.save(path)
    return formulas


class Loud:
    """An operand that records how it is coerced, to show the order and number of conversions."""

    def __init__(self, name, log, fail=()):
        self.name, self.log, self.fail = name, log, fail

    def _step(self, kind, result):
        self.log.append('%s.%s' % (self.name, kind))
        if kind in self.fail:
            raise self.fail[kind]
        return result

    def __int__(self):
        return self._step('int', 7)

    def __float__(self):
        return self._step('float', 7.5)

    def __str__(self):
        return self._step('str', 'loud')

    def __repr__(self):
        return 'Loud(%s)' % self.name


def main():
    workdir = tempfile.mkdtemp(prefix='r3_demo_')
    try:
        xlsx = os.path.join(workdir, 'cmp.xlsx')
        out_py = os.path.join(workdir, 'cmp_class.py')
        formulas = build_workbook(xlsx)
        parser = Parser().set_excel_file_path(xlsx)
        translation = parser.get_translation()
        parser.write_translation(out_py)

        emit('== emitted call sites ==')
        sites = [line.strip() for line in translation.split('\n')
                 if line.lstrip().startswith('return') and '_compare(' in line]
        emit('%d call sites, sha256 %s' % (len(sites), hashlib.sha256('\n'.join(sites).encode()).hexdigest()))
        for site in sites[:6] + sites[90:]:
            emit(site)

        emit('== workbook through the Executor ==')
        executor = Executor().set_executed_class(class_file=out_py)
        for row, column, formula in formulas:
            value = call(lambda: executor.get_cell(Cell(0, column, row)).value)
            if 'TODAY' in formula:
                value = value.split(':')[0]  # the date of the run is not part of the digest
            emit('%-32s -> %s' % (formula, value))

        emit('== overrides through the Executor ==')
        overrides = [(1, 2), (2, 1), ('1', 1), ('x', 'X'), (None, 0), (None, ''), (0.1 + 0.2, 0.3), (D(2020, 1, 1), 'z'),
                     (datetime.date(2020, 1, 1), 'z'), ([1], [1]), (float('nan'), float('nan')), (True, 'True')]
        for left, right in overrides:
            executor.set_cells([Cell('Cmp', 'A', '1', value=left), Cell('Cmp', 'B', '1', value=right)])
            emit('A1,B1=%r -> %s' % ((left, right), ' '.join(
                call(lambda: executor.get_cell(Cell(0, 2 + offset, 0)).value) for offset in range(len(OPERATORS)))))

        emit('== direct calls, both runtime copies ==')
        generated = load_module(out_py).ExcelInPython()
        hand_written = HandWritten()
        per_copy = {}
        for label, instance in (('base', hand_written), ('generated', generated)):
            empty = instance.EmptyCell()
            operands = [
                0, 1, -1, 5, 5.0, 5.5, -0.0, 1e308, float('inf'), float('-inf'), float('nan'), 10 ** 400, True, False,
                None, empty, '', ' ', '5', ' 5 ', '05', '5.0', '5.5', '1e3', '1_000', 'abc', 'ABC', 'nan', 'inf',
                '2024-01-01', '2024-01-01 00:00:00', b'5', decimal.Decimal('5'), decimal.Decimal('NaN'),
                decimal.Decimal('Infinity'), fractions.Fraction(11, 2), 5 + 0j,
                datetime.date(2024, 1, 1), datetime.date(2024, 1, 2), D(2024, 1, 1), D(2024, 1, 1, 0, 0, 1),
                D(2024, 1, 1, tzinfo=datetime.timezone.utc), datetime.time(1, 2), datetime.timedelta(days=1),
                [1], [], (1,), {'a': 1}, {1}, object, len,
            ]
            operators = ['==', '!=', '<', '<=', '>', '>=', '=', '<>', '', None, 3, 'is']
            digest = hashlib.sha256()
            results = []
            for operator in operators:
                for left, right in itertools.product(operands, operands):
                    try:
                        value = instance._compare(operator, left, right)
                        result = show(value)
                    except instance.ExcelInPythonException as error:
                        result = 'raises ExcelInPythonException(%s)' % error
                    except BaseException as error:
                        result = 'raises ' + type(error).__name__
                    results.append(result)
                    digest.update(('%r %r %r -> %s\n' % (operator, left, right, result)).encode())
            per_copy[label] = results
            emit('%s: %d calls, sha256 %s' % (label, len(results), digest.hexdigest()))

            emit('-- %s: boundary samples --' % label)
            samples = [
                ('==', datetime.date(2024, 1, 1), D(2024, 1, 1)), ('<', datetime.date(2024, 1, 1), D(2024, 1, 1, 0, 0, 1)),
                ('==', datetime.date(2024, 1, 1), '2024-01-01 00:00:00'), ('==', datetime.date(2024, 1, 1), '2024-01-01'),
                ('<', 'abc', datetime.date(2024, 1, 1)), ('>', datetime.date(2024, 1, 1), datetime.date(2023, 1, 1)),
                ('<', empty, D(2024, 1, 1)), ('>=', empty, D(2024, 1, 1)), ('==', empty, ''), ('==', empty, None),
                ('==', '5', 5), ('==', '5.0', 5), ('==', '5.5', 5.5), ('<', '10', '9'), ('<', '10', 'a9'),
                ('==', 'abc', 'ABC'), ('==', None, None), ('<', None, 1), ('==', [1], [1]), ('<', [1], 'a'),
                ('==', float('nan'), float('nan')), ('==', 10 ** 400, 1.0), ('<', 1.0, 10 ** 400),
                ('==', decimal.Decimal('Infinity'), 1), ('~', 1, 2), ('~', 'a', 'b'), ('~', None, None),
                (None, 1, 2), (None, 'a', 'b'), (3, 'a', datetime.date(2024, 1, 1)),
                ('<', D(2024, 1, 1, tzinfo=datetime.timezone.utc), D(2024, 1, 1)),
                ('==', D(2024, 1, 1, tzinfo=datetime.timezone.utc), D(2024, 1, 1)),
            ]
            for operator, left, right in samples:
                try:
                    result = show(instance._compare(operator, left, right))
                except instance.ExcelInPythonException as error:
                    result = 'raises ExcelInPythonException(%s)' % error
                except BaseException as error:
                    result = 'raises ' + type(error).__name__
                emit('%s _compare(%r, %r, %r) -> %s' % (label, operator, left, right, result))

            emit('-- %s: order and number of coercions --' % label)
            scenarios = [
                {}, {'int': ValueError('no')}, {'int': TypeError('no'), 'float': ValueError('no')},
                {'int': TypeError('no'), 'float': TypeError('no'), 'str': ValueError('no')},
                {'int': KeyError('k')}, {'int': ValueError('no'), 'float': OverflowError('big')},
                {'float': ValueError('unused')},
            ]
            for fail in scenarios:
                for operator in ('<', '==', 'bad'):
                    log = []
                    left, right = Loud('L', log, fail), Loud('R', log, fail)
                    try:
                        result = show(instance._compare(operator, left, right))
                    except instance.ExcelInPythonException as error:
                        result = 'raises ExcelInPythonException(%s)' % error
                    except BaseException as error:
                        result = 'raises ' + type(error).__name__
                    emit('%s fail=%s op=%r -> %s after %s' % (label, sorted(fail), operator, result, ','.join(log)))
                log = []
                mixed = call(instance._compare, '<', Loud('L', log, fail), 3)
                emit('%s fail=%s mixed with 3 -> %s after %s' % (label, sorted(fail), mixed, ','.join(log)))
                log = []
                mixed = call(instance._compare, '>', datetime.date(2024, 5, 5), Loud('R', log, fail))
                emit('%s fail=%s date with Loud -> %s after %s' % (label, sorted(fail), mixed, ','.join(log)))

            emit('-- %s: an overridden _by_operator sees the same operand sequence --' % label)

            seen = []

            class Spy(type(instance)):
                def _by_operator(self, operator, left_operand, right_operand):
                    seen.append('%s(%s,%s)' % (operator, show(left_operand), show(right_operand)))
                    return super()._by_operator(operator, left_operand, right_operand)

            spy = Spy()
            for operator, left, right in [('<', 1, 2), ('<', '1', 2.5), ('<', 'a', 2), ('==', datetime.date(2024, 1, 1), 'q'),
                                          ('>', datetime.date(2024, 1, 1), D(2023, 1, 1)), ('<', None, None),
                                          ('?', 1, 2), ('?', 'a', 'b')]:
                del seen[:]
                try:
                    result = show(spy._compare(operator, left, right))
                except spy.ExcelInPythonException as error:
                    result = 'raises ExcelInPythonException(%s)' % error
                except BaseException as error:
                    result = 'raises ' + type(error).__name__
                emit('%s spy %r %r %r -> %s via %s' % (label, operator, left, right, result, ' ; '.join(seen)))

        emit('== agreement of the two copies ==')
        emit('copies agree on every direct call: %s' % (per_copy['base'] == per_copy['generated']))
    finally:
        shutil.rmtree(workdir, ignore_errors=True)

    total = hashlib.sha256('\n'.join(LINES).encode()).hexdigest()
    print('TOTAL %d lines, sha256 %s' % (len(LINES), total))
    return 0


if __name__ == '__main__':
    sys.exit(main())
