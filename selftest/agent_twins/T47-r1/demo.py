"""Equivalence demo for r1 (C19): the Python-like-content detector of Excel.parse.

Prints a deterministic digest of
  * Excel._get_suspicious_constructions on many strings / non-string values,
  * the suspicious-cell map, data, titles and sheet sizes that Excel.parse builds for several workbooks,
  * what Parser does with the same workbooks with the safety check enabled and disabled.
"""
import datetime
import hashlib
import os
import shutil
import tempfile

from openpyxl import Workbook
from openpyxl.worksheet.formula import ArrayFormula

from excel2pycl import Parser, Excel, E2PyclSafetyException

TEXTS = [
    '', ' ', 'plain text', 'eval(1)', 'os.system("rm -rf /")', 'SUM(A1:A2)', '=SUM(A1:A2)', '=sum(A1)',
    'Sum(1)', 'sUM(1)', 'SUm(1)', 'a()', 'A()', '_()', '1()', '_1a(x)', 'f (x)', 'f(', 'f)', '()', '(a)',
    'f(g(x))', 'F(g(x))', 'f(G(x))', 'F(G(X))', 'f(x) g(y)', 'f(x)G(y)', 'F(x)g(y)', 'eval(1) SUM(2) exec(3)',
    'aSUM(1)', 'SUMa(1)', 'a.b.c(d)', 'x.Y(z)', 'x.YZ(1)', 'print("A(1)")', 'f(\n)', 'f(\n) g()', 'f(a\nb) h(c)',
    'f()g()h()', 'IF(a(1),2)', 'if(A(1),2)', 'ёж(1)', 'ё_a(1)', 'a1(2)', '1a(2)', 'É(1)', 'aÉ(1)', 'x = __import__("os")',
    '__import__("os").system("id")', 'lambda: f(x)', 'f((x))', 'f(x))', 'f((x)', 'call(a)(b)', 'A(a)(b)', 'A1(B2)',
    'ROUND(eval(1))', 'round(EVAL(1))', '=IF(A1>0;eval("1");0)', "=LEFT(\"eval(1)\";2)", 'TRUE()', 'true()',
    '"quoted f(x)"', "'single f(x)'", '\\f(x)', 'f(x)\\', '{f(x)}', '{{F(x)}}', '%s(1)', 'a-b(c)', 'a_b(c)', 'A_B(c)',
    'A_(c)', '_A(c)', 'A1_(c)', 'aA(c)', 'Aa(c)', 'aAa(c)', 'X' * 50 + '(1)', 'x' * 50 + '(1)', 'f(' + 'y' * 200 + ')',
    'tab\tf(x)', 'f(x)\tG(y)', 'a(b) ' * 5, 'A(b) ' * 5, 'f(1)f(1)', 'F(1)f(1)F(1)',
]
VALUES = TEXTS + [0, 1, -1, 1.5, True, False, None, 12345678901234567890, datetime.datetime(2020, 1, 2, 3, 4, 5),
                  datetime.date(2020, 1, 2), b'f(x)', ('f(x)',), ['F(x)', 'g(y)'], {'k(1)': 'V(2)'}]


def digest(text: str) -> str:
    return hashlib.sha256(text.encode('utf-8')).hexdigest()[:16]


def describe_exception(e: BaseException) -> str:
    parts = [e.__class__.__name__, repr(str(e))]
    if isinstance(e, E2PyclSafetyException):
        parts.append(repr(list(e.suspicious_cells.items())))
    return ' | '.join(parts)


def build_workbooks(directory: str) -> dict:
    books = {}

    # 1: every text in its own cell on a sheet with an awkward title, four columns wide
    wb = Workbook()
    ws = wb.active
    ws.title = "She'et (1)"
    for index, text in enumerate(TEXTS):
        ws.cell(row=index // 4 + 1, column=index % 4 + 1, value=text if text != '' else None)
    ws2 = wb.create_sheet('eval(x)')
    ws2['A1'] = 1
    ws2['B2'] = 'calc(2)'
    ws2['AB3'] = 'far(away)'
    ws2['C5'] = datetime.datetime(2021, 5, 6)
    ws2['D5'] = True
    ws2['E5'] = 0
    ws2['F5'] = 2.5
    ws3 = wb.create_sheet('Empty')
    ws4 = wb.create_sheet('Only Excel')
    ws4['A1'] = '=SUM(B1:B3)'
    ws4['B1'] = 1
    ws4['B2'] = 2
    ws4['B3'] = 'TEXT(1)'
    ws4['C1'] = '=IF(B1>0;"yes(1)";"NO(2)")'
    books['mixed'] = wb

    # 2: a clean workbook (only upper-case calls / no calls)
    wb = Workbook()
    ws = wb.active
    ws.title = 'Clean'
    ws['A1'] = 3
    ws['A2'] = 4
    ws['A3'] = '=SUM(A1:A2)'
    ws['B1'] = 'hello world'
    ws['B2'] = '=IF(A1>A2;"a";"b")'
    ws['B3'] = 'ROUND(1) and MAX(2)'
    ws['C1'] = '=LEFT("abcdef";3)'
    ws['C3'] = "it's (not) a call"
    ws['D4'] = '=A3*2'
    books['clean'] = wb

    # 3: one suspicious constant among formulas, ragged rows, array formula
    wb = Workbook()
    ws = wb.active
    ws.title = 'Data'
    ws['A1'] = 10
    ws['B1'] = '=A1+1'
    ws['C1'] = 'os.system("id")'
    ws['A2'] = 'x'
    ws['E3'] = 'y'
    ws['A4'] = ArrayFormula('A4', '=SUM(A1:A1) ')
    ws['B4'] = ArrayFormula('B4:B5', '=max(1)')
    ws2 = wb.create_sheet('Second')
    ws2['A1'] = "=Data!A1"
    ws2['A2'] = 'first(1) second(2) THIRD(3)'
    books['one_bad'] = wb

    # 4: lower-case function in a formula only
    wb = Workbook()
    ws = wb.active
    ws.title = 'F'
    ws['A1'] = 1
    ws['A2'] = '=sum(A1)'
    books['lower_formula'] = wb

    # 4b: suspicious constants only; translatable when the check is disabled
    wb = Workbook()
    ws = wb.active
    ws.title = 'Const'
    ws['A1'] = 'eval(1)'
    ws['A2'] = '__import__("os").system("id") and MAX(1)'
    ws['B1'] = '=A1&"!"'
    ws['B2'] = 7
    ws2 = wb.create_sheet("it's")
    ws2['C3'] = 'print(1)\nprint(2)'
    books['bad_constants'] = wb

    # 5: completely empty workbook
    wb = Workbook()
    books['empty'] = wb

    paths = {}
    for name, wb in books.items():
        path = os.path.join(directory, name + '.xlsx')
        wb.save(path)
        wb.close()
        paths[name] = path
    return paths


def main():
    print('== detector on values')
    for value in VALUES:
        try:
            result = Excel._get_suspicious_constructions(value)
            out = f'{type(result).__name__} {result!r}'
        except Exception as e:  # noqa
            out = 'EXC ' + describe_exception(e)
        shown = repr(value) if len(repr(value)) < 70 else repr(value)[:30] + '..' + digest(repr(value))
        print(f'{shown} -> {out}')
    fresh_1 = Excel._get_suspicious_constructions('nothing')
    fresh_2 = Excel._get_suspicious_constructions('nothing')
    print('fresh lists', fresh_1 == fresh_2 == [], fresh_1 is not fresh_2)

    directory = tempfile.mkdtemp(prefix='t47r1_')
    try:
        paths = build_workbooks(directory)
        for name, path in paths.items():
            print('== workbook', name)
            excel = Excel.parse(path)
            print('titles', excel.get_titles())
            print('sizes', excel.get_sheets_size())
            print('suspicious', list(excel._suspicious_cells.items()))
            print('data', digest(repr(excel._data)), [[len(r) for r in sheet] for sheet in excel._data])
            if name in ('one_bad', 'lower_formula'):
                print('data full', repr(excel._data))
            try:
                print('is_safe', excel.is_safe())
            except Exception as e:  # noqa
                print('is_safe EXC', describe_exception(e))

            for enabled in (True, False):
                parser = Parser().set_excel_file_path(path)
                parser = parser.enable_safety_check() if enabled else parser.disable_safety_check()
                for attempt in (1, 2):
                    try:
                        translation = parser.get_translation()
                        print(f'parser safety={enabled} try={attempt} OK', digest(translation), len(translation))
                    except Exception as e:  # noqa
                        print(f'parser safety={enabled} try={attempt} EXC', describe_exception(e))
    finally:
        shutil.rmtree(directory, ignore_errors=True)
    print('tmp removed', not os.path.exists(directory))


if __name__ == '__main__':
    main()
