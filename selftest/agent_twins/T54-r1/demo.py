"""Equivalence demo for r1 (C04: overrides, last write wins).

Builds its own workbook, translates it, and drives Executor.set_cells / get_cell / get_sheet and the
runtime set_arguments / _cell_preprocessor (both the generated class and AbstractExcelInPython)
through many histories, printing a deterministic digest.
"""
import hashlib
import os
import shutil
import sys
import tempfile

import openpyxl

from excel2pycl import Parser, Executor, Cell
from excel2pycl.src.utilities.abstract_excel_in_python_class import AbstractExcelInPython

OUT = []


def emit(*parts):
    OUT.append(' | '.join(str(p) for p in parts))


def show(value):
    return f'{type(value).__name__}:{value!r}'


def attempt(label, fn):
    try:
        emit(label, 'OK', show(fn()))
    except BaseException as e:  # noqa
        emit(label, 'EXC', type(e).__name__, str(e))


def build_workbook(path):
    wb = openpyxl.Workbook()
    ws = wb.active
    ws.title = 'Main'
    ws['A1'] = 1
    ws['A2'] = 2
    ws['A3'] = 3
    ws['B1'] = '=A1+A2'
    ws['B2'] = '=B1*A3'
    ws['B3'] = '=1/0'
    ws['C1'] = '=IF(B3>0,1,2)'
    ws['C2'] = '=IFERROR(B3,"fallback")'
    ws['C3'] = '=SUM(A1:A3)'
    ws['D1'] = '=IF(A1>1,"big","small")'
    ws['D2'] = '=E5'          # blank cell inside nothing
    ws['D3'] = '=Z99+1'       # beyond the used range
    ws['E1'] = '=Second!A1+B2'
    ws['E2'] = '=IFS(A1>5,"x",A2>5,"y")'
    ws['E3'] = '=IFERROR(IFS(A1>5,"x",A2>5,"y"),A3)'
    ws['F1'] = 'text'
    ws['F2'] = '=F1&A1'
    ws2 = wb.create_sheet('Second')
    ws2['A1'] = 10
    ws2['B1'] = '=A1*Main!A1'
    ws2['B2'] = '=MAX(Main!A1:A3)'
    wb.create_sheet('Empty')
    wb.save(path)


WATCH = [('Main', c, r) for c in 'ABCDEF' for r in '123'] + [('Second', 'A', '1'), ('Second', 'B', '1'),
                                                              ('Second', 'B', '2'), ('Main', 'E', '5'),
                                                              ('Main', 'Z', '99'), ('Empty', 'A', '1')]


def snapshot(executor, label):
    for title, column, row in WATCH:
        attempt(f'{label} get {title}!{column}{row}', lambda: executor.get_cell(Cell(title, column, row)).value)
    emit(label, 'sizes', executor._sheets_size)
    emit(label, 'overrides', sorted((k, show(v.value)) for k, v in executor._cells.items()))
    emit(label, 'arguments', sorted((k, show(v)) for k, v in executor.get_executed_class()._arguments.items()))
    emit(label, 'changed flag', executor._cells_have_been_changed)


def run_histories(class_file):
    def fresh():
        return Executor().set_executed_class(class_file=class_file)

    ex = fresh()
    snapshot(ex, 'h0 pristine')

    # single override of a constant
    ex.set_cells([Cell('Main', 'A', '1', value=100)])
    snapshot(ex, 'h1 A1=100')
    # override again: the last write wins, also within one call
    ex.set_cells([Cell('Main', 'A', '1', value=5), Cell('Main', 'A', '1', value=7)])
    snapshot(ex, 'h2 A1=5 then 7 in one call')
    # override formula cell with an error formula by a constant
    ex.set_cells([Cell('Main', 'B', '3', value=4)])
    snapshot(ex, 'h3 B3=4')
    # blank cell and cell beyond range; integer addressing
    ex.set_cells([Cell(0, 4, 4, value=11), Cell('Main', 'Z', '99', value=2.5), Cell('Empty', 'C', '4', value='e')])
    snapshot(ex, 'h4 blanks and beyond')
    # falsy / odd constants
    ex.set_cells([Cell('Main', 'A', '2', value=0), Cell('Main', 'A', '3', value=None), Cell('Main', 'F', '1', value=''),
                  Cell('Second', 'A', '1', value=False)])
    snapshot(ex, 'h5 falsy constants')
    ex.set_cells([Cell('Main', 'A', '2', value='#N/A'), Cell('Main', 'B', '1', value='#DIV/0!')])
    snapshot(ex, 'h6 error constants')
    ex.set_cells([])
    snapshot(ex, 'h7 empty batch')
    for sheet in ('Main', 'Second', 'Empty', 0, 1, 2):
        attempt(f'h7 get_sheet {sheet!r}',
                lambda: [[show(c.value) for c in row] for row in ex.get_sheet(sheet)])

    # set_cells without any read in between; several batches
    ex = fresh()
    ex.set_cells([Cell('Main', 'A', '1', value=1000)]).set_cells([Cell('Main', 'A', '1', value=-1)]) \
        .set_cells([Cell('Main', 'C', '1', value='c1'), Cell('Second', 'B', '1', value=3)])
    snapshot(ex, 'h8 chained batches')

    # failures inside set_cells: state after a partial failure
    ex = fresh()
    attempt('h9 unknown title',
            lambda: ex.set_cells([Cell('Main', 'K', '20', value=1), Cell('Nope', 'A', '1', value=2)]) and 'done')
    snapshot(ex, 'h9 after unknown title')
    attempt('h10 row None', lambda: ex.set_cells([Cell('Main', 'L', '30', value=1), Cell('Main', 'A', '', value=2)]) and 'done')
    snapshot(ex, 'h10 after row None')
    attempt('h11 sheet index out of range', lambda: ex.set_cells([Cell(7, 1, 1, value=2)]) and 'done')
    attempt('h11 negative sheet index', lambda: ex.set_cells([Cell(-1, 2, 3, value='neg')]) and 'done')
    attempt('h11 str column int row', lambda: ex.set_cells([Cell(0, 'B', 1, value='mixed')]) and 'done')
    attempt('h11 not handled str/str uid before handling', lambda: Cell('Main', 'A', '1').uid)
    attempt('h11 float row', lambda: ex.set_cells([Cell(0, 1, 1.5, value='f')]) and 'done')
    attempt('h11 not a cell', lambda: ex.set_cells([object()]) and 'done')
    attempt('h11 None', lambda: ex.set_cells(None) and 'done')
    snapshot(ex, 'h11 after odd cells')

    # a generator of cells is consumed by the first pass
    ex = fresh()
    attempt('h12 generator', lambda: ex.set_cells(c for c in [Cell('Main', 'A', '1', value=55)]) and 'done')
    snapshot(ex, 'h12 after generator')
    attempt('h12 tuple', lambda: ex.set_cells((Cell('Main', 'A', '1', value=56),)) and 'done')
    snapshot(ex, 'h12 after tuple')

    # same Cell object reused with another value (cell already handled)
    ex = fresh()
    reused = Cell('Main', 'A', '1', value=8)
    ex.set_cells([reused])
    attempt('h13 first', lambda: ex.get_cell(Cell('Main', 'B', '2')).value)
    reused.value = 9
    attempt('h13 mutated without set_cells', lambda: ex.get_cell(Cell('Main', 'B', '2')).value)
    ex.set_cells([reused])
    attempt('h13 after second set_cells', lambda: ex.get_cell(Cell('Main', 'B', '2')).value)
    snapshot(ex, 'h13 reused cell')

    # the runtime class directly
    instance = fresh().get_executed_class()
    klass = type(instance)
    run_runtime('generated', klass)


def run_runtime(label, klass):
    for init in (None, [], [{'uid': '_0_0_0', 'value': 42}],
                 [{'uid': '_0_0_0', 'value': 1}, {'uid': '_0_0_0', 'value': 2}]):
        attempt(f'{label} init {init!r}', lambda: sorted(klass(init)._arguments.items()) if init is not None
                else sorted(klass()._arguments.items()))
    inst = klass()
    steps = [
        [{'uid': '_0_0_0', 'value': 5}],
        [{'uid': '_0_0_0', 'value': 6}, {'uid': '_0_1_0', 'value': 'x'}],
        [],
        [{'uid': '_9_9_9', 'value': None}, {'uid': '_0_0_0', 'value': 7, 'extra': 1}],
        [{'uid': '_0_5_5', 'value': 1}, {'value': 2}],           # KeyError in the middle: nothing applied
        [{'uid': '_0_6_6', 'value': 1}, {'uid': 'only uid'}],
        [{'uid': ['unhashable'], 'value': 1}],
        [None],
        None,
        ({'uid': '_0_7_7', 'value': (1, 2)},),
        (d for d in [{'uid': '_0_8_8', 'value': 8.5}]),
    ]
    for n, step in enumerate(steps):
        attempt(f'{label} set_arguments step {n}', lambda: inst.set_arguments(step))
        emit(f'{label} arguments after step {n}', list((k, show(v)) for k, v in inst._arguments.items()))
        previous = inst._arguments
        attempt(f'{label} rebinding step {n}', lambda: inst.set_arguments([]) or (inst._arguments is previous))
    uids = ['_0_0_0', '_0_1_0', '_0_1_1', '_0_2_1', '_0_2_0', '_9_9_9', '_0_7_7', '_0_8_8', '_nope', '', '_arguments',
            '_titles', '_sheets_size', '_cell_preprocessor', '_ifs', 'EmptyCell', '__doc__', '__module__', None, 5,
            ('a',), ['unhashable'], {'d': 1}]
    for uid in uids:
        attempt(f'{label} _cell_preprocessor {uid!r}', lambda: inst._cell_preprocessor(uid))
        attempt(f'{label} exec_function_in {uid!r}', lambda: inst.exec_function_in(uid))
    # overriding odd uids: the override is found before the attribute is used
    inst.set_arguments([{'uid': '_arguments', 'value': 'ov1'}, {'uid': '_cell_preprocessor', 'value': 'ov2'},
                        {'uid': None, 'value': 'ov3'}, {'uid': '_nope', 'value': 0}])
    for uid in ['_arguments', '_cell_preprocessor', None, '_nope', '_titles']:
        attempt(f'{label} overridden {uid!r}', lambda: inst._cell_preprocessor(uid))
    # instance attribute callable shadows class one
    inst2 = klass()
    inst2.__dict__['_x_inst'] = lambda self: 'from instance'
    inst2.__dict__['_x_falsy'] = 0
    attempt(f'{label} instance callable', lambda: inst2._cell_preprocessor('_x_inst'))
    attempt(f'{label} instance falsy attr', lambda: inst2._cell_preprocessor('_x_falsy'))
    inst2.set_arguments([{'uid': '_x_inst', 'value': 'overridden'}])
    attempt(f'{label} instance callable overridden', lambda: inst2._cell_preprocessor('_x_inst'))


class Direct(AbstractExcelInPython):
    def _0_0_0(self):
        return 1

    def _0_1_0(self):
        return self._cell_preprocessor('_0_0_0') + self._cell_preprocessor('_0_2_0')

    def _0_1_1(self):
        return 1 / 0

    def _0_2_1(self):
        return self._iferror(lambda: self._cell_preprocessor('_0_1_1'), 'fb')


def main():
    tmp = tempfile.mkdtemp(prefix='t54_r1_')
    try:
        xlsx = os.path.join(tmp, 'book.xlsx')
        out_py = os.path.join(tmp, 'book_translated.py')
        build_workbook(xlsx)
        Parser().set_excel_file_path(xlsx).write_translation(out_py)
        text = open(out_py).read()
        functions = text.split("        return '#VALUE!'\n\n")[-1]
        emit('generated cell functions', functions.count('def '), hashlib.sha256(functions.encode()).hexdigest())
        emit(functions)
        run_histories(out_py)
        run_runtime('abstract', Direct)
    finally:
        shutil.rmtree(tmp, ignore_errors=True)
    body = '\n'.join(OUT)
    print(body)
    print('DIGEST', hashlib.sha256(body.encode()).hexdigest(), len(OUT))


if __name__ == '__main__':
    main()
    sys.exit(0)
