"""Equivalence demo for r1 (CellTranslator: constant/formula classification and constant rendering).

Builds workbooks full of hostile text (constant cells, string literals inside formulas, sheet titles),
translates them with the safety check on and off, loads the generated class, evaluates every cell and
prints a deterministic digest.  Also drives CellTranslator directly with stub Excel objects so that
values openpyxl would never hand over (bytes, tuples, odd strings) go through the same code.
"""
import builtins
import datetime
import hashlib
import os
import re
import shutil
import signal
import sys
import tempfile

from openpyxl import Workbook

from excel2pycl import Parser, Executor, Cell, Context
from excel2pycl.src.translators import CellTranslator

signal.alarm(600)

MARK = 'PWNED_T14_R1'
TMP = tempfile.mkdtemp(prefix='t14r1_')
LINES = []


def out(*parts):
    LINES.append(' '.join(str(p) for p in parts))


def show(value):
    return f'{type(value).__name__}:{value!r}'


def sha(text):
    return hashlib.sha256(text.encode('utf-8')).hexdigest()[:16]


HOSTILE = [
    "plain",
    "",
    " ",
    "it's",
    'say "hi"',
    "back\\slash",
    "trailing backslash\\",
    "line1\nline2",
    "tab\there",
    "cr\rhere",
    "'''",
    '"""',
    "''' + str(1) + '''",
    "' + __import__('os').getcwd() + '",
    f"setattr(__import__('builtins'), '{MARK}', 1)",
    f"'); setattr(__import__('builtins'), '{MARK}', 2); ('",
    "{0} {titles} {functions} {{x}}",
    "}{",
    "%s %d %(x)s",
    "\\n\\t\\x41\\u0041\\N{BULLET}",
    "• unicode é 中",
    "\x7f",
    "#VALUE!",
    "1e5",
    "0123",
    "TRUE",
    " =1+1",
    "'=1+1",
    "a=b",
    "self._arguments.clear()",
    "lambda: 0",
    "SUM(1;2)",
    "exec(chr(49))",
    "x" * 300,
]

CONSTANTS = [0, 1, -1, 2 ** 40, 1.5, -0.0, 1e300, 1e-300, True, False,
             datetime.datetime(2020, 2, 29, 13, 14, 15), datetime.date(1999, 12, 31), datetime.time(1, 2, 3)]

FORMULAS = [
    '="plain"',
    '="it\'s"',
    '="back\\slash"',
    '="trailing\\"',
    '="{0}{titles}{{x}}"',
    '="a"&"b\'c"',
    '="x""y"',
    '=""',
    '=" "',
    f'="setattr(__import__(\'builtins\'), \'{MARK}\', 3)"',
    '="\'+str(1)+\'"',
    '=A1',
    '=A2&A4',
    '=A6&"|"&A7',
    '=LEFT(A15;7)',
    '=IF(A1="plain";"y\'es";"n\\o")',
    '=1+1',
    '=1.50+2',
    '=TRUE',
    '=FALSE()',
    '=',
    '==1',
    '=="a"',
    '="line1\nline2"',
    '=A1:A3',
    "='It''s'!A1",
    "='we ird'!A1",
    '=Plain!A2',
    '=ZZ99',
    '=CONCATENATE(A4;A5;"\'")',
    '=SUM(B1:B5)',
    '=COUNTIFS(A1:A9;"pl*")',
    '=COUNTIFS(A1:A9;"it\'s")',
]

TITLES = ['Main', "we ird", "q'uote", 'dq"uote', 'semi;co,lon', '{titles}', "x') or ('", 'Plain', '中文']


def build_workbook(path, with_formulas=True, formulas=None, hostile=None):
    wb = Workbook()
    ws = wb.active
    ws.title = TITLES[0]
    for i, text in enumerate(HOSTILE if hostile is None else hostile):
        ws.cell(row=i + 1, column=1, value=text)
    for i, value in enumerate(CONSTANTS):
        ws.cell(row=i + 1, column=2, value=value)
    if with_formulas:
        for i, formula in enumerate(formulas if formulas is not None else FORMULAS):
            ws.cell(row=i + 1, column=4, value=formula)
    for title in TITLES[1:]:
        other = wb.create_sheet(title)
        other['A1'] = 'first of ' + title
        other['A2'] = "se'cond \\ of " + title
        other['B1'] = '=A1&"!"'
    wb.save(path)
    wb.close()


def evaluate(tag, class_file, sheets):
    try:
        executor = Executor().set_executed_class(class_file=class_file)
    except BaseException as e:  # noqa
        out(tag, 'LOAD', type(e).__name__, e)
        return
    out(tag, 'titles', executor.get_executed_class().get_titles())
    out(tag, 'sizes', executor.get_executed_class().get_sheets_size())
    for sheet in range(sheets):
        size = executor.get_executed_class().get_sheets_size()[sheet]
        for row in range(size['last_row']):
            for column in range(size['last_column']):
                try:
                    value = executor.get_cell(Cell(sheet, column, row)).value
                    out(tag, sheet, column, row, show(value))
                except BaseException as e:  # noqa
                    out(tag, sheet, column, row, 'EXC', type(e).__name__, e)
    out(tag, 'marker', getattr(builtins, MARK, None))


def translate(tag, xlsx, safety, entry=None):
    parser = Parser().set_excel_file_path(xlsx)
    parser = parser.enable_safety_check() if safety else parser.disable_safety_check()
    if entry is not None:
        parser.set_entrypoint_cell(entry)
    try:
        text = parser.get_translation()
    except BaseException as e:  # noqa
        out(tag, 'TRANSLATE', type(e).__name__, str(e)[:400])
        return None
    out(tag, 'translation', len(text), sha(text))
    functions = text[text.rindex("return '#VALUE!'"):]
    for line in functions.splitlines():
        out(tag, 'gen|', line)
    return parser


# ---------------------------------------------------------------- 1. every formula on its own
for number, formula in enumerate(FORMULAS):
    xlsx = os.path.join(TMP, f'one_{number}.xlsx')
    build_workbook(xlsx, formulas=[formula])
    for safety in (True, False):
        tag = f'one[{number}][{"safe" if safety else "unsafe"}]'
        parser = translate(tag, xlsx, safety)
        if parser is None:
            continue
        class_file = os.path.join(TMP, f'one_{number}_{int(safety)}.py')
        parser.write_translation(class_file)
        evaluate(tag, class_file, 1)

# ---------------------------------------------------------------- 2. no formulas, all hostile constants and titles
xlsx = os.path.join(TMP, 'constants.xlsx')
build_workbook(xlsx, with_formulas=False)
for safety in (True, False):
    tag = f'const[{"safe" if safety else "unsafe"}]'
    parser = translate(tag, xlsx, safety)
    if parser is not None:
        class_file = os.path.join(TMP, f'constants_{int(safety)}.py')
        parser.write_translation(class_file)
        evaluate(tag, class_file, len(TITLES))

# ---------------------------------------------------------------- 2b. hostile text the safety check lets through
CALL_LIKE = re.compile(r'[a-zA-Z_\d]+\(')
tame = [text for text in HOSTILE if not CALL_LIKE.search(text)]
tame_formulas = [f for f in FORMULAS[:20] + FORMULAS[26:] if not re.search(r'[a-z_\d]\(', f)]
out('tame', len(tame), len(tame_formulas))
xlsx = os.path.join(TMP, 'tame.xlsx')
build_workbook(xlsx, formulas=[f for f in tame_formulas if f != '="x""y"'], hostile=tame)
for safety in (True, False):
    tag = f'tame[{"safe" if safety else "unsafe"}]'
    parser = translate(tag, xlsx, safety)
    if parser is not None:
        class_file = os.path.join(TMP, f'tame_{int(safety)}.py')
        parser.write_translation(class_file)
        evaluate(tag, class_file, len(TITLES))

# ---------------------------------------------------------------- 3. all translatable formulas together + entry points
good = []
for number, formula in enumerate(FORMULAS):
    xlsx = os.path.join(TMP, f'one_{number}.xlsx')
    try:
        Parser().set_excel_file_path(xlsx).disable_safety_check().get_translation()
        good.append(formula)
    except BaseException:  # noqa
        pass
out('good formulas', len(good))
xlsx = os.path.join(TMP, 'all.xlsx')
build_workbook(xlsx, formulas=good)
parser = translate('all', xlsx, False)
class_file = os.path.join(TMP, 'all.py')
parser.write_translation(class_file)
evaluate('all', class_file, len(TITLES))
for entry in [Cell(0, 3, 0), Cell('Main', 'D', '5'), Cell(0, 0, 14), Cell("q'uote", 'B', '1'), Cell(0, 30, 30),
              Cell(1, 0, 0), Cell('nope', 'A', '1'), Cell(0, 'A'), Cell(0, 0, None)]:
    tag = f'entry[{entry}]'
    parser = translate(tag, xlsx, False, entry=entry)
    if parser is not None:
        class_file = os.path.join(TMP, 'entry.py')
        parser.write_translation(class_file)
        evaluate(tag, class_file, 1)


# ---------------------------------------------------------------- 4. CellTranslator directly, stub Excel
class StubExcel:
    def __init__(self, values):
        self.values = values
        self.filled = []

    def fill_cell(self, cell):
        cell._handled_identifiers = True
        cell.value = self.values.get((cell.title, cell.column, cell.row))
        self.filled.append(cell.uid)
        return cell

    def get_cells(self):
        return [self.fill_cell(Cell(*key)) for key in self.values]


class Text(str):
    pass


DIRECT = [None, '', '=', ' =1', 'x=1', '=1', '=1+2*3', '="a\'b"', '=A1', '=B1', Text('=2+2'), Text('sub'), b'=1',
          b'bytes', 0, 0.0, False, True, 7, -7, 1.25, float('inf'), (1, 2), ['=1'], {'=': 1},
          datetime.datetime(2001, 2, 3, 4, 5, 6), "quote'", 'dq"', "both'\"", 'nl\n', '\\', '{x}', '=(', '=1+',
          '=UNKNOWNFN(1)', '="unterminated', '= 1', '=\n1']
for number, value in enumerate(DIRECT):
    values = {(0, 0, 0): 'a1', (0, 1, 0): value, (0, 5, 5): value}
    for mode in ('translate', 'translate_file'):
        excel, context = StubExcel(values), Context()
        tag = f'direct[{number}][{mode}]'
        try:
            if mode == 'translate':
                cell = Cell(0, 5, 5)
                result = CellTranslator.translate(cell, excel, context)
                again = CellTranslator.translate(Cell(0, 5, 5), excel, context)
                out(tag, 'result', show(result), show(again), show(cell.value))
            else:
                result = CellTranslator.translate_file(excel, context)
                out(tag, 'result', show(result))
        except BaseException as e:  # noqa
            out(tag, 'EXC', type(e).__name__, str(e)[:300])
        out(tag, 'filled', excel.filled)
        out(tag, 'cells', sorted(context._cell_translations.items()))
        out(tag, 'subs', sorted(context._sub_cell_translations.items()))
        out(tag, 'in progress', sorted(context._cells_in_progress))

# the private helper keeps storing the translation in the context (whatever it returns)
excel, context = StubExcel({(0, 0, 0): "it's", (0, 1, 0): '=A1&"x"'}), Context()
CellTranslator._set_cell_to_context(Cell(0, 1, 0), excel, context)
out('helper', sorted(context._cell_translations.items()), excel.filled)

# ---------------------------------------------------------------- 5. depth of nested translation is unchanged
xlsx = os.path.join(TMP, 'chain.xlsx')
wb = Workbook()
ws = wb.active
ws.title = 'Chain'
ws['A1'] = "start'"
for row in range(2, 401):
    ws[f'A{row}'] = f'=A{row - 1}&"x"'
wb.save(xlsx)
wb.close()


def translates(row):
    try:
        Parser().set_excel_file_path(xlsx).set_entrypoint_cell(Cell(0, 0, row)).get_translation()
        return True
    except RecursionError:
        return False


low, high = 0, 399  # low translates, high does not
out('chain ends', translates(low), translates(high))
while high - low > 1:
    middle = (low + high) // 2
    if translates(middle):
        low = middle
    else:
        high = middle
out('deepest entry row that still translates', low)

out('final marker', getattr(builtins, MARK, None))
shutil.rmtree(TMP, ignore_errors=True)
out('tmp removed', not os.path.exists(TMP))
text = '\n'.join(LINES)
print(text)
print('DIGEST', hashlib.sha256(text.encode('utf-8')).hexdigest(), len(LINES))
sys.exit(0)
