"""Equivalence demo for r2 (C19): the safety gate in the Parser facade, Excel.is_safe and the safety exception.

Drives Parser through many histories (enable / disable the check, change the file, change the entry point,
repeat calls that must hit the cache, calls that fail and are retried) and prints what every step produced.
Also constructs the exception and Excel objects directly.
"""
import hashlib
import os
import shutil
import tempfile

from openpyxl import Workbook

from excel2pycl import Parser, Executor, Excel, Cell, E2PyclSafetyException, E2PyclParserException


def digest(text) -> str:
    if text is None:
        return 'None'
    return hashlib.sha256(text.encode('utf-8')).hexdigest()[:16] + f'/{len(text)}'


def describe_exception(e: BaseException) -> str:
    parts = [e.__class__.__name__, [c.__name__ for c in e.__class__.__mro__[1:4]], repr(str(e)), repr(e.args)]
    if isinstance(e, E2PyclSafetyException):
        parts.append(repr(list(e.suspicious_cells.items())))
    return ' | '.join(str(p) for p in parts)


def save(directory, name, sheets: dict) -> str:
    wb = Workbook()
    first = True
    for title, cells in sheets.items():
        ws = wb.active if first else wb.create_sheet()
        ws.title = title
        first = False
        for address, value in cells.items():
            ws[address] = value
    path = os.path.join(directory, name + '.xlsx')
    wb.save(path)
    wb.close()
    return path


def flags(parser: Parser) -> str:
    return ''.join('1' if f else '0' for f in (parser._safety_check, parser._safety_check_has_been_changed,
                                               parser._entrypoint_cell_has_been_changed,
                                               parser._excel_file_path_has_been_changed))


def step(label: str, parser: Parser, action):
    try:
        result = action()
        if isinstance(result, Parser):
            shown = 'Parser(same)' if result is parser else 'Parser(other)'
        else:
            shown = digest(result)
        print(f'{label}: OK {shown} flags={flags(parser)} cached={digest(parser._translation)}')
    except Exception as e:  # noqa
        print(f'{label}: EXC {describe_exception(e)} flags={flags(parser)} cached={digest(parser._translation)}')


def main():
    print('== exception objects')
    for kwargs in ({}, {'suspicious_cells': {}}, {'suspicious_cells': {"'S'A1": ['eval(1)']}},
                   {'suspicious_cells': {"'S'A1": ['eval(1)', 'f(2)'], "'T t'B2": ['g()'], "'it's'C3": ['h(\n)']}},
                   {'suspicious_cells': {1: 2, None: (3,)}}, {'other': 1}):
        for args in ((), ('ignored',)):
            e = E2PyclSafetyException(*args, **kwargs)
            print(describe_exception(e), isinstance(e, E2PyclParserException))
    try:
        E2PyclSafetyException(suspicious_cells=None)
    except Exception as e:  # noqa
        print('None cells', e.__class__.__name__)

    print('== Excel.is_safe directly')
    for suspicious in ({}, {"'S'A1": ['eval(1)']}, {"'S'B2": []}, {"'A'A1": ['a(1)'], "'B'B1": ['b(2)', 'c(3)']}, None, [], [1]):
        excel = Excel({'data': [[]], 'titles': ['S'], 'suspicious_cells': suspicious, 'sheets_size': [{}]})
        for attempt in (1, 2):
            try:
                print(repr(suspicious), attempt, '->', repr(excel.is_safe()))
            except Exception as e:  # noqa
                print(repr(suspicious), attempt, '-> EXC', describe_exception(e))

    directory = tempfile.mkdtemp(prefix='t47r2_')
    try:
        clean = save(directory, 'clean', {'Main': {'A1': 1, 'A2': 2, 'A3': '=SUM(A1:A2)', 'B1': 'text', 'B2': '=IF(A1>0;"p";"n")'},
                                          'Other one': {'A1': '=Main!A3*2', 'C2': 'MAX(1) is fine'}})
        clean2 = save(directory, 'clean2', {'Main': {'A1': 5, 'A3': '=A1+1'}})
        bad_const = save(directory, 'bad_const', {'Main': {'A1': 'eval(1)', 'A2': '=A1&"x"', 'A3': 3},
                                                  "Sh'eet (2)": {'D4': 'os.system("ls") or SUM(1)', 'E5': 'ok', 'AA10': 'f(x) g(y)'}})
        bad_formula = save(directory, 'bad_formula', {'Main': {'A1': 1, 'A2': '=sum(A1)'}})
        broken = save(directory, 'broken', {'Main': {'A1': '=A1+1', 'A2': '=SUM('}})
        missing = os.path.join(directory, 'missing.xlsx')
        not_excel = os.path.join(directory, 'not_excel.xlsx')
        with open(not_excel, 'w') as f:
            f.write('plain text')

        print('== no path')
        parser = Parser()
        step('get without path', parser, parser.get_translation)
        step('get without path again', parser, parser.get_translation)
        step('disable', parser, parser.disable_safety_check)
        step('get without path, disabled', parser, parser.get_translation)
        step('set empty path', parser, lambda: parser.set_excel_file_path(''))
        step('get with empty path', parser, parser.get_translation)
        step('write with empty path', parser, lambda: parser.write_translation(os.path.join(directory, 'never.py')))
        print('never.py exists', os.path.exists(os.path.join(directory, 'never.py')))

        print('== unreadable files')
        for path_label, path in (('missing', missing), ('not_excel', not_excel)):
            for enabled in (True, False):
                parser = Parser().set_excel_file_path(path)
                parser = parser.enable_safety_check() if enabled else parser.disable_safety_check()
                try:
                    parser.get_translation()
                    print(path_label, enabled, 'OK')
                except Exception as e:  # noqa
                    print(path_label, enabled, 'EXC', e.__class__.__name__, 'flags', flags(parser))

        print('== history on one parser')
        parser = Parser()
        step('set clean', parser, lambda: parser.set_excel_file_path(clean))
        step('get 1', parser, parser.get_translation)
        step('get 2 (cache)', parser, parser.get_translation)
        # the cache must be used: replace the file on disk by a suspicious one, nothing was "changed" on the parser
        backup = clean + '.bak'
        shutil.copy(clean, backup)
        shutil.copy(bad_const, clean)
        step('get 3 (cache, file replaced by bad)', parser, parser.get_translation)
        step('enable (marks changed)', parser, parser.enable_safety_check)
        step('get 4 (re-read, now bad)', parser, parser.get_translation)
        step('get 5 (still bad, retried)', parser, parser.get_translation)
        step('disable', parser, parser.disable_safety_check)
        step('get 6 (bad accepted)', parser, parser.get_translation)
        step('get 7 (cache)', parser, parser.get_translation)
        shutil.copy(backup, clean)
        step('get 8 (cache, file restored)', parser, parser.get_translation)
        step('set entrypoint', parser, lambda: parser.set_entrypoint_cell(Cell('Main', 'A', '3')))
        step('get 9 (entrypoint)', parser, parser.get_translation)
        step('enable', parser, parser.enable_safety_check)
        step('get 10', parser, parser.get_translation)
        step('set bad_formula', parser, lambda: parser.set_excel_file_path(bad_formula))
        step('get 11 (rejected)', parser, parser.get_translation)
        step('disable', parser, parser.disable_safety_check)
        step('get 12 (lexer error on A2? entrypoint A3 empty)', parser, parser.get_translation)
        step('set entrypoint A2', parser, lambda: parser.set_entrypoint_cell(Cell('Main', 'A', '2')))
        step('get 13', parser, parser.get_translation)
        step('set entrypoint None', parser, lambda: parser.set_entrypoint_cell(None))
        step('get 14', parser, parser.get_translation)
        step('set broken', parser, lambda: parser.set_excel_file_path(broken))
        step('get 15', parser, parser.get_translation)
        step('enable', parser, parser.enable_safety_check)
        step('get 16', parser, parser.get_translation)
        step('set clean2', parser, lambda: parser.set_excel_file_path(clean2))
        out_py = os.path.join(directory, 'out.py')
        step('write clean2', parser, lambda: parser.write_translation(out_py))
        with open(out_py, encoding='utf-8') as f:
            print('written', digest(f.read()))
        executor = Executor().set_executed_class(class_file=out_py)
        print('clean2 A3 =', executor.get_cell(Cell('Main', 'A', '3')).value)
        step('set bad_const', parser, lambda: parser.set_excel_file_path(bad_const))
        os.remove(out_py)
        step('write bad_const (rejected)', parser, lambda: parser.write_translation(out_py))
        print('out.py exists after rejection', os.path.exists(out_py))
        step('disable', parser, parser.disable_safety_check)
        step('write bad_const (accepted)', parser, lambda: parser.write_translation(out_py))
        executor = Executor().set_executed_class(class_file=out_py)
        for cell in (Cell('Main', 'A', '1'), Cell('Main', 'A', '2'), Cell("Sh'eet (2)", 'D', '4'), Cell("Sh'eet (2)", 'AA', '10')):
            print(cell.title, cell.column, cell.row, '=', repr(executor.get_cell(cell).value))

        print('== every file x every mode, fresh parsers')
        for name, path in (('clean', clean), ('clean2', clean2), ('bad_const', bad_const), ('bad_formula', bad_formula), ('broken', broken)):
            for mode in ('default', 'enabled', 'disabled', 'disabled-then-enabled', 'enabled-then-disabled'):
                parser = Parser().set_excel_file_path(path)
                if mode == 'enabled':
                    parser.enable_safety_check()
                elif mode == 'disabled':
                    parser.disable_safety_check()
                elif mode == 'disabled-then-enabled':
                    parser.disable_safety_check().enable_safety_check()
                elif mode == 'enabled-then-disabled':
                    parser.enable_safety_check().disable_safety_check()
                step(f'{name} {mode}', parser, parser.get_translation)
    finally:
        shutil.rmtree(directory, ignore_errors=True)
    print('tmp removed', not os.path.exists(directory))


if __name__ == '__main__':
    main()
