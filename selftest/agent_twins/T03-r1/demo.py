"""
Equivalence demonstration for r1 (RegexpBaseToken.get: compiled anchored pattern + match.groups('')
instead of re.findall on a pattern string rebuilt on every call).

Calls every regexp token class directly on many texts, then runs the lexer and the AST builder on a
corpus of formulas, then translates a workbook.  Prints a deterministic digest.
"""
import hashlib
import os
import tempfile

from openpyxl import Workbook

from excel2pycl import Parser, Executor, Cell
from excel2pycl.src.ast_builder import AstBuilder
from excel2pycl.src.lexer import Lexer
from excel2pycl.src.tokens import RegexpBaseToken
from excel2pycl.src.tokens.undefined_token import UndefinedToken

LINES = []


def out(*parts):
    LINES.append(' | '.join(str(p) for p in parts))


def describe(call):
    try:
        return 'ok', call()
    except BaseException as e:  # noqa
        return 'exc', f'{type(e).__module__}.{type(e).__name__}:{e.args!r}'


TEXTS = [
    '', ' ', '=', '==', '=A1', 'A1', 'A1+B2', 'A1:B2', 'A1:A9', 'A:A', 'A:C', '$A$1', '$A$1:$B$2', 'A1:B', 'A1:1',
    "'My sheet'!A1", "'My sheet'!A1:B3", 'Sheet2!C3', 'Sheet2!C3:C9+1', "'a!b'!A1", "''!A1", '!A1', 'A1B2', 'A12:A',
    'AA10', 'A1 ', 'A1\n', 'A1\n+1', 'A1+\nB1', '\n', '\t+', '1', '1.5', '1.', '.5', '1e5', '1e-5', '1.5e3', '1.5e-3x',
    '12abc', '007', '"text"', '""', '"a""b"', '"unterminated', '"a*"', '"?x"', '"~*"', '"a~*b*"', '"a\nb"', '"*"&A1',
    'TRUE', 'TRUE()', 'FALSE', 'FALSE()', 'TRUEX', 'true', '(', ')', '((', ';', ',', '~', ';;', '<>', '>=', '<=', '<',
    '>', '=<', '+', '-', '*', '/', '&', '%', '%%', '^', '#', '@', '{', 'a1', 'SUM', 'SUM(', 'SUMIF(', 'SUMIFS(A1',
    'IF', 'IFS', 'IFERROR', 'IFX', 'COUNT', 'COUNTBLANK', 'COUNTIFS', 'COUNTIF', 'DATE', 'DATEDIF', 'DAY', 'DAYS',
    'ROUND', 'ROUNDUP', 'ROUNDDOWN', 'AVERAGE', 'AVERAGEIFS', 'MATCH', 'XMATCH', 'MAX', 'MIN', 'MID', 'LEFT', 'RIGHT',
    'TEXT', 'VALUE', 'TODAY()', 'VLOOKUP(', 'NETWORKDAYS', 'EOMONTH', 'EDATE', 'ADDRESS', 'COLUMN', 'INDEX', 'OR',
    'AND', 'ORA1', 'SEARCH', 'CONCATENATE', 'YEAR', 'MONTH', 'Лист1!A1', "'Лист 1'!B2", 'ÄB1', 'A1:B2:C3', 'A1:$A$5',
    'B2:D2', 'B$2:D$2', 'B2:D3', 'A1:A', 'A:A1', '1:1', 'A1.5', 'A1e5', 'A1"x"', '1A', '1 2', 'x' * 200,
    'A' * 50 + '1', '"' + 'a' * 300 + '"', '\x1c', ' A1', 'A1 +1', '\r\n=',
]

FORMULAS = [
    '=1', '=1+2', '= 1 + 2', '=1+', '=+1', '=-A1', '=--1', '=(1+2)*3', '=(1+2', '=1+2)', '=()', '=A1', '=A1+B1*2',
    '=A1 B1', '=A1,B1', '=SUM(A1:A3)', '=SUM(A1:A3;B1)', '=SUM(A1:A3,B1)', '=SUM( A1:A3 ; B1 )', '=SUM(A1:A3', '=SUM()',
    '=SUM', '=SUM(A1:A3))', '=SUM(A1:A3)1', '=SUM(A1:A3) 1', '=SUM(A1:A3)+', '=IF(A1>1;2;3)', '=IF(A1>1,2,3)',
    '=IF(A1>1;2)', '=IF(A1>1)', '=IF(A1>1;2;3;4)', '=IF(;;)', '=IF(A1>1; "y"; "n")', '=IF(A1<>1,"y","n")&"z"',
    '=IFERROR(1/0;5)', '=IFERROR(1/0)', '=ROUND(1.234;2)', '=ROUND(1.234)', '=ROUND(1.234;2;3)', '=LEFT("abc";2)',
    '=LEFT("abc")', '=LEFT()', '=MID("abc";1;2)', '=MID("abc";1)', '=RIGHT("abc",1)', '=MAX(A1:A3)', '=MIN(A1;2)',
    '=AVERAGE(A1:A3)', '=VLOOKUP(1;A1:B3;2;FALSE)', '=VLOOKUP(1;A1:B3;2)', '=VLOOKUP(1;A1:B3)', '=MATCH(2;A1:A3;0)',
    '=MATCH(2;A1:A3)', '=MATCH(2)', '=XMATCH(2;A1:A3)', '=COUNTIFS(A1:A3;">1")', '=COUNTIFS(A1:A3;"a*")',
    '=COUNTIFS(A1:A3)', '=SUMIF(A1:A3;">1")', '=SUMIF(A1:A3;">1";B1:B3)', '=SUMIF(A1:A3)', '=SUMIFS(B1:B3;A1:A3;">1")',
    '=AVERAGEIFS(B1:B3;A1:A3;">1")', '=COUNT(A1:A3)', '=COUNTBLANK(A1:A3)', '=DATE(2020;1;2)', '=DATE(2020;1)',
    '=YEAR(A1)', '=MONTH(A1)', '=DAY(A1)', '=TODAY()', '=TODAY(1)', '=EDATE(A1;1)', '=EOMONTH(A1;1)',
    '=DATEDIF(A1;B1;"d")', '=NETWORKDAYS(A1;B1)', '=ADDRESS(1;2)', '=COLUMN(B1)', '=COLUMN()', '=INDEX(A1:B3;1;2)',
    '=IFS(A1>1;1;A1>2;2)', '=ROUNDUP(1.5;0)', '=ROUNDDOWN(1.5;0)', '=VALUE("1")', '=TEXT(1;"0")',
    '=CONCATENATE("a";"b")', '=SEARCH("a";"abc")', '=SEARCH("a";"abc";1)', '=OR(A1;B1)', '=AND(A1;B1)', '=50%',
    '=A1%', '=A1%+1', '=50%%', '=A1&B1', '="a"&"b"', '=A1>=B1', '=A1<=B1', '=A1<B1', '=A1>B1', '=A1=B1', '=A1<>B1',
    '=TRUE', '=FALSE()', "='My sheet'!A1+1", '=Sheet2!A1', '=Nope!A1', '=A1:A3', '=A:A', '=SUM(A:A)', '=SUM(A:C)',
    '=SUM(A1:C3)', '=SUM(A1:C)', '=FOO(1)', '=foo', '=sum(A1)', '=1e3', '=1.5e-2', '=1.', '=.5', '=1..2', '="a', '=#REF!',
    '=A1^2', '=A1+\nB1', '=A1\n', '=\nA1', '= \t A1', '=A1+B1 ', '=  ', '=', '==1', '=SUM(A1:A3;)', '=SUM(;A1)',
    '=IF(A1>1;SUM(A1:A3;IF(B1;1;2));MAX(1;2))', '=IF(A1>1;SUM(A1:A3;IF(B1;1));MAX(1;2)', '=((((1))))', '=((((1)))',
    '=1~2', '=SUM(1~2)', '=A1:B2:C3', '=$A$1+$B2+C$3', '=SUM($A$1:$A$3)', '=LEFT("a,b";1)', '=LEFT("a;b",1)',
    '=IF(A1="";"e";"f")', '=1 2', '=1 +2', '=-(1+2)', '=-(1+2)*3', '=(1)+(2)', '=(1)(2)', '=SUM((A1:A3))',
]


def main():
    in_cell = Cell(0, 0, 0)
    classes = [c for c in RegexpBaseToken.subclasses() if c is not UndefinedToken]
    out('token classes', [c.__name__ for c in classes])

    # 1. every token class on every text
    for text in TEXTS + FORMULAS:
        for token_class in classes:
            kind, result = describe(lambda: token_class.get(text, in_cell))
            if kind == 'ok':
                token, rest = result
                if token is None:
                    if rest is not text and rest != text:
                        out('T', token_class.__name__, repr(text), 'NO-MATCH-BUT-REST-CHANGED', repr(rest))
                    continue
                out('T', token_class.__name__, repr(text), type(token).__name__, repr(token.value),
                    type(token.value).__name__, repr(rest), type(rest).__name__)
            else:
                out('T', token_class.__name__, repr(text), 'EXC', result)

    # 2. repeated calls give the same answer (the compiled pattern is reused)
    for _ in range(3):
        for token_class in classes:
            kind, result = describe(lambda: token_class.get('A1:B2+SUM(1;"x")', in_cell))
            out('R', token_class.__name__, kind, repr(result[0].value) if kind == 'ok' and result[0] else result)

    # 3. lexer + ast builder
    for formula in FORMULAS + TEXTS:
        kind, result = describe(lambda: Lexer.parse(formula, in_cell))
        out('L', repr(formula), kind, result)
        if kind == 'ok':
            kind, result = describe(lambda: AstBuilder.parse(result, in_cell))
            out('A', repr(formula), kind, type(result).__name__ if kind == 'ok' else result)

    # 4. whole translation, one workbook per formula
    with tempfile.TemporaryDirectory() as tmp:
        for number, formula in enumerate(FORMULAS):
            wb = Workbook()
            ws = wb.active
            ws.title = 'My sheet'
            wb.create_sheet('Sheet2')['A1'] = 7
            for row, (a, b, c) in enumerate([(1, 10, 'abc'), (2, 20, 'b'), (3, 30, None)], start=1):
                ws.cell(row, 1, a)
                ws.cell(row, 2, b)
                ws.cell(row, 3, c)
            ws['E1'] = formula
            path = os.path.join(tmp, f'w{number}.xlsx')
            wb.save(path)
            parser = Parser().set_excel_file_path(path).disable_safety_check()
            kind, result = describe(parser.get_translation)
            if kind == 'exc':
                out('W', repr(formula), 'EXC', result.replace(tmp, '<tmp>'))
                continue
            out('W', repr(formula), 'text', hashlib.sha256(result.encode()).hexdigest())
            py = os.path.join(tmp, f'w{number}.py')
            parser.write_translation(py)
            executor = Executor().set_executed_class(class_file=py)
            kind, result = describe(lambda: executor.get_cell(Cell(0, 4, 0)).value)
            if 'TODAY' in formula:
                result = type(result).__name__
            out('W', repr(formula), 'value', kind, repr(result))

    text = '\n'.join(LINES)
    print(f'lines: {len(LINES)}')
    print(f'sha256: {hashlib.sha256(text.encode()).hexdigest()}')
    shown = [line for line in LINES if line[0] in 'LAW']
    print('\n'.join(shown))


if __name__ == '__main__':
    main()
