"""Equivalence demo for r3 (C07): CellTranslator -- how constant cells and formula cells get into the class.

1. Real workbooks (openpyxl) full of hostile / awkward constant texts, numbers, booleans, dates, empty cells and
   formulas that refer to them (several times, so the "already translated" path is taken), translated as a
   whole file and from entry points, with the safety check disabled; the generated text is digested, every
   cell is evaluated and compared with the original text.
2. Hand-made Excel objects passed straight to CellTranslator with values openpyxl would never give.
"""
import datetime
import hashlib
import os
import shutil
import tempfile

from openpyxl import Workbook

from excel2pycl import Parser, Executor, Excel, Cell, Context, CellTranslator

SENTINEL = os.path.join(tempfile.gettempdir(), 't47r3_sentinel_must_not_exist')

HOSTILE = [
    "plain", "it's", 'say "hi"', "both ' and \"", 'back\\slash', 'trailing\\', '\\', "\\'", '\\"', "'", '"', "''", '""',
    "'''", '"""', "line1\nline2", "tab\there", "cr\rlf", "\n", " ", "  lead", "trail  ",
    "__import__('os').system('touch %s')" % SENTINEL, "eval('1+1')", "exec(\"open('%s','w')\")" % SENTINEL,
    "' + __import__('os').getcwd() + '", '" + str(1) + "', "'); import os; ('", "{0}", "{name}", "{{}}", "{", "}",
    "%s", "%(x)s", "#comment", "# -*- coding: x -*-", "self._arguments", "return 1", "lambda: 1", "1+1", "1e5", "0x10",
    "True", "None", "self.EmptyCell()", "a=b", " =1+1", "x=", " ==", "éè жук 中文 \U0001F600",
    " sep", "\x7f", "a" * 300, "f'{1+1}'", "b'bytes'", "r'\\n'", "\\n", "\\x41", "\\u0041", "\\N{BULLET}", "$A$1", "A1", "SUM(A1:A2)",
    "'Sheet'!A1", "#VALUE!", "#N/A", "-", "+", "-1", "+1", "@A1",
]
OTHER = [0, 1, -1, 2.5, -0.0, 1e20, 1e-7, 123456789012345, True, False, datetime.datetime(2020, 2, 29, 13, 14, 15),
         datetime.datetime(1999, 12, 31), datetime.date(2021, 3, 4), datetime.time(5, 6, 7)]


def digest(text: str) -> str:
    return hashlib.sha256(text.encode('utf-8')).hexdigest()[:16] + f'/{len(text)}'


def exc(e: BaseException) -> str:
    return f'{e.__class__.__name__} {str(e)!r}'


def build(directory: str):
    wb = Workbook()
    ws = wb.active
    ws.title = 'Texts'
    for i, text in enumerate(HOSTILE, start=1):
        ws.cell(row=i, column=1, value=text)                       # A: the constant
        ws.cell(row=i, column=2, value=f'=A{i}')                   # B: plain reference
        ws.cell(row=i, column=3, value=f'=A{i}&A{i}')              # C: referenced twice
        ws.cell(row=i, column=4, value=f'=IF(B{i}=A{i};"same";"diff")')
    ws.cell(row=len(HOSTILE) + 3, column=6, value='far')          # leaves empty cells in between
    ws2 = wb.create_sheet("O'ther \"sheet\" {x}")
    for i, value in enumerate(OTHER, start=1):
        ws2.cell(row=i, column=1, value=value)
        ws2.cell(row=i, column=2, value=f'=A{i}')
    ws2['D1'] = '=Texts!A1'
    ws2['D2'] = "='Texts'!A2&\"|\"&Texts!A3"
    ws2['D3'] = '=E3'             # empty cell reference
    ws2['D4'] = '=SUM(A1:A3)'
    ws2['D5'] = '=C7+1'           # empty + 1
    ws2['D6'] = '="lit {q} \\ \'s # %s"'
    ws2['D7'] = "=\"__import__('os').system('touch %s')\"" % SENTINEL
    ws2['D8'] = '=LEFT("eval(1)";4)&"{x}"'
    forced = ws2['D9']
    forced.value = 'text'
    forced.value = '=1+1'
    forced.data_type = 's'        # a text that only looks like a formula
    ws2['D10'] = '=D9'
    ws3 = wb.create_sheet('Blank')
    ws4 = wb.create_sheet('=Eq')
    ws4['A1'] = '=1=1'
    ws4['B2'] = 'x'
    path = os.path.join(directory, 'book.xlsx')
    wb.save(path)
    wb.close()

    wb = Workbook()
    ws = wb.active
    ws.title = 'Loop'
    ws['A1'] = '=B1'
    ws['B1'] = '=C1+1'
    ws['C1'] = '=A1'
    ws['D1'] = 5
    ws['D2'] = '=D1*2'
    ws['E1'] = '='
    ws['E2'] = '=E2'
    loop = os.path.join(directory, 'loop.xlsx')
    wb.save(loop)
    wb.close()
    return path, loop


def main():
    directory = tempfile.mkdtemp(prefix='t47r3_')
    try:
        path, loop = build(directory)

        print('== whole file')
        out_py = os.path.join(directory, 'whole.py')
        parser = Parser().set_excel_file_path(path).disable_safety_check()
        try:
            parser.write_translation(out_py)
            translation = parser.get_translation()
            print('translation', digest(translation))
            functions = translation[translation.index('    def _0_0_0(self)'):] if '    def _0_0_0(self)' in translation else ''
            print('functions', digest(functions), functions.count('    def '))
            executor = Executor().set_executed_class(class_file=out_py)
            ok = 0
            for i, text in enumerate(HOSTILE):
                values = []
                for column in range(4):
                    try:
                        values.append(executor.get_cell(Cell(0, column, i)).value)
                    except Exception as e:  # noqa
                        values.append('EXC ' + exc(e))
                same = values[0] == text and type(values[0]) is str
                ok += same
                print(i, same, digest(repr(values)), repr(values[0])[:60], repr(values[3]))
            print('constants identical to the workbook text:', ok, 'of', len(HOSTILE))
            for sheet in (1, 2, 3):
                for row in executor.get_sheet(sheet):
                    print(sheet, [f'{type(c.value).__name__}:{c.value!r}' for c in row])
            tail = executor.get_cell(Cell('Texts', 'F', str(len(HOSTILE) + 3))).value
            gap = executor.get_cell(Cell('Texts', 'E', '2')).value
            print('tail', repr(tail), 'gap', type(gap).__name__, repr(gap), 'outside', repr(executor.get_cell(Cell(0, 50, 500)).value))
        except Exception as e:  # noqa
            print('whole file EXC', exc(e))

        print('== entry points')
        for entry in (Cell('Texts', 'A', '1'), Cell('Texts', 'D', '5'), Cell(0, 2, 22), Cell("O'ther \"sheet\" {x}", 'D', '2'),
                      Cell(1, 3, 6), Cell(1, 3, 9), Cell(1, 4, 40), Cell('Blank', 'A', '1'), Cell('=Eq', 'A', '1'),
                      Cell('=Eq', 'A', '2'), Cell('Nope', 'A', '1'), Cell('Texts', 'A', None), Cell('Texts', 'A', '')):
            label = f'{entry.title!r},{entry.column!r},{entry.row!r}'
            entry_py = os.path.join(directory, 'entry.py')
            try:
                parser = Parser().set_excel_file_path(path).disable_safety_check().set_entrypoint_cell(entry)
                translation = parser.get_translation()
                parser.write_translation(entry_py)
                functions = translation[translation.rindex('#VALUE!'):]
                value = Executor().set_executed_class(class_file=entry_py).get_cell(entry).value
                print(label, digest(translation), functions.count('    def '), f'{type(value).__name__}:{value!r}'[:120])
            except Exception as e:  # noqa
                print(label, 'EXC', exc(e))

        print('== circular')
        for entry in (None, Cell('Loop', 'A', '1'), Cell('Loop', 'C', '1'), Cell('Loop', 'D', '2'), Cell('Loop', 'E', '1'), Cell('Loop', 'E', '2')):
            try:
                parser = Parser().set_excel_file_path(loop)
                if entry is not None:
                    parser.set_entrypoint_cell(entry)
                print(entry, 'OK', digest(parser.get_translation()))
            except Exception as e:  # noqa
                print(entry, 'EXC', exc(e))

        print('== hand-made Excel objects')
        values = [None, '', '=', '=1', ' =1', '==', 'text', "q'q", 'n\nn', 0, 0.0, -0.0, 1, True, False, 1.5, float('inf'),
                  float('nan'), 10 ** 30, b'=1', ('=1',), ['=1'], {'=': 1}, datetime.datetime(2020, 1, 1), datetime.date(2020, 1, 1),
                  '\x00', '\ud800', '="a"&"b"', '=A1', '=B1', '=Z9', '=1+', '=foo(1)', '=TRUE', "='S 2'!A1", '=A1:A3', '=SUM(A1:A3)']
        data = [[[v] for v in values], [['s2a1', '=S1!A7']]]
        excel = Excel({'data': data, 'titles': ['S1', 'S 2'], 'suspicious_cells': {}, 'sheets_size': [{}, {}]})
        for row, value in enumerate(values):
            context = Context()
            context._titles = excel.get_titles()
            cell = Cell(0, 0, row)
            try:
                result = CellTranslator.translate(cell, excel, context)
                again = CellTranslator.translate(Cell('S1', 'A', str(row + 1)), excel, context)
                print(row, repr(value)[:40], '->', result, again == result, sorted(context._cell_translations.items()),
                      sorted(context._sub_cell_translations.items()), context._cells_in_progress)
            except Exception as e:  # noqa
                print(row, repr(value)[:40], '-> EXC', exc(e), sorted(context._cell_translations.items()), context._cells_in_progress)
        good = [v for v in values if v not in ('=', '==', '=1+', '=foo(1)')]
        for file_values in (values, good, []):
            excel = Excel({'data': [[[v] for v in file_values], [['s2a1', '=S1!A7']]], 'titles': ['S1', 'S 2'],
                           'suspicious_cells': {}, 'sheets_size': [{}, {}]})
            context = Context()
            context._titles = excel.get_titles()
            try:
                CellTranslator.translate_file(excel, context)
                print('file OK', digest(context.build_class()))
            except Exception as e:  # noqa
                print('file EXC', exc(e))
            print(sorted(context._cell_translations.items()), sorted(context._sub_cell_translations.items()), context._cells_in_progress)
        print('private helpers untouched: ', CellTranslator.translate.__name__, CellTranslator.translate_file.__name__)
    finally:
        shutil.rmtree(directory, ignore_errors=True)
    print('sentinel created', os.path.exists(SENTINEL))
    print('tmp removed', not os.path.exists(directory))


if __name__ == '__main__':
    main()
