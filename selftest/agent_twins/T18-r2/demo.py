"""Equivalence demo for r2: the percent handling of ExpressionTokenTranslator.

For many formulas with the % operator (alone, chained, mixed with arithmetic, comparison, & and
functions, valid and invalid) the demo transpiles a one-formula workbook, prints the exception
class if translation is rejected, otherwise the generated text of the cell methods and a sha256 of
the whole generated module, and then the values computed by the Executor for many cell overrides.
Also drives ExpressionTokenTranslator.translate directly with hand-made token trees.
"""
import datetime
import hashlib
import math
import os
import shutil
import sys
import tempfile

from openpyxl import Workbook

from excel2pycl import Parser, Executor, Cell

_digest = hashlib.sha256()
_lines = 0


def out(line: str):
    global _lines
    _digest.update(line.encode('utf-8') + b'\n')
    _lines += 1
    print(line)


def show_value(value):
    if isinstance(value, float):
        if math.isnan(value):
            return 'float:nan'
        return f'float:{value!r}:{value.hex()}'
    return f'{type(value).__name__}:{value!r}'


def call(function, *args):
    try:
        return show_value(function(*args))
    except BaseException as error:
        return f'raises {type(error).__name__}'


FORMULAS = [
    '=5%', '=A1%', '=A1%+B1', '=A1%-B1', '=A1%*B1', '=A1%/B1', '=A1%^2', '=A1%+B1%', '=A1%*B1%', '=A1%-B1%-C1%',
    '=A1+B1%', '=A1*B1%', '=A1/B1%', '=A1-B1%*C1', '=10%*A1', '=A1*10%', '=1-A1%', '=1+A1%+B1', '=100%-A1%',
    '=-A1%', '=-A1%+B1', '=(A1%)', '=(A1%)+B1', '=(A1%+B1)*C1', '=(A1+B1)*C1%', '=(A1+B1)%', '=A1%*(B1+C1)',
    '=A1%*(B1%+C1%)', '=(A1%*B1)+(C1%*B1)', '=50%%', '=A1%%', '=A1%%+1', '=A1% %', '=A1 %', '=%A1', '=A1%B1',
    '=A1%>B1%', '=A1%=0.07', '=A1%<>B1', '=A1%>=B1%', '=A1%<B1', '=A1%<=0.29', '=A1>B1%', '=A1%&"x"', '="p"&A1%',
    '=A1%&B1%', '=SUM(A1:C1)%', '=SUM(A1:C1)%+1', '=SUM(A1%,B1%)', '=ROUND(A1%,3)', '=ROUND(A1%*B1,2)',
    '=ROUNDUP(A1%+B1%,1)', '=ROUNDDOWN(A1*B1%,1)', '=IF(A1%>0.05,A1%,B1%)', '=IF(A1%+B1%>0.3,1,2)',
    '=IFERROR(A1%/C1%,0)', '=MAX(A1%,B1%,C1%)', '=MIN(A1%+1,B1%+1)', '=AVERAGE(A1%,B1%)', '=A1%+B1%+C1%+A1%',
    '=A1%*100', '=A1%*B1*C1%', '=7%+29%', '=7%*3', '=0.1%+0.2%', '=33.3%', '=1.5%*1.5%', '=A1%+"1"', '=1,5%',
    '=A1+B1', '=A1*B1-C1', '=(A1+B1)*C1', '=-A1', '=A1&B1', '=A1>B1', '=A1',
]

OVERRIDES = [
    None,
    (7, 29, 3),
    (0.07, 0.29, 0.03),
    (33.3, 66.6, 0.1),
    (1.1, 2.2, 3.3),
    (57, 1.15, 1e-10),
    (123456789012345, 999999999999999, 0.000123456789012345),
    (-7, -29, -3),
    (0, 0, 0),
    (1e308, 1e308, 1e-308),
    (True, False, True),
    ('7', '29', '3'),
    ('abc', 29, 3),
    (datetime.datetime(2024, 2, 29), 29, 3),
    ('', '', ''),
]


def one_formula(tmp_dir, index, formula):
    xlsx = os.path.join(tmp_dir, f'percent_{index}.xlsx')
    module_path = os.path.join(tmp_dir, f'percent_{index}.py')
    wb = Workbook()
    ws = wb.active
    ws.append([14.5, 29, 3, formula])
    wb.save(xlsx)

    parser = Parser().set_excel_file_path(xlsx)
    try:
        text = parser.get_translation()
    except BaseException as error:
        out(f'{formula!r}: translation raises {type(error).__name__}')
        return
    out(f'{formula!r}: module sha256 {hashlib.sha256(text.encode("utf-8")).hexdigest()}')
    marker = '    def _0_'
    for line in text[text.index(marker):].splitlines() if marker in text else ['<no cell methods>']:
        if line.strip():
            out(f'{formula!r}: text | {line}')

    parser.write_translation(module_path)
    def evaluate(override):
        executor = Executor().set_executed_class(class_file=module_path)
        if override is not None:
            executor.set_cells([Cell(0, column, 0, value=value) for column, value in enumerate(override)])
        return executor.get_cell(Cell(0, 3, 0)).value

    for override in OVERRIDES:
        out(f'{formula!r}: cells {override!r} -> {call(evaluate, override)}')


def direct_token_trees():
    """Hand-made expression trees for shapes the lexer/parser never produces."""
    from excel2pycl.src.context import Context
    from excel2pycl.src.translators.expression_token_translator import ExpressionTokenTranslator
    from excel2pycl.src import tokens as t

    def literal(text):
        return t.OperandToken([t.LiteralToken.get(text, None)[0]], None)

    def percent_of(operand, tail=None):
        value = [operand, t.PercentOperatorToken([t.PercentToken(('%',), None)], None)]
        return t.OneLeftOperandExpressionToken(value + ([tail] if tail is not None else []), None)

    def operator(kind):
        inner = {
            '+': lambda: t.ArithmeticOperatorToken(
                [t.OneOperandArithmeticOperatorToken([t.PlusOperatorToken(('+',), None)], None)], None),
            '*': lambda: t.ArithmeticOperatorToken([t.MultiplicationOperatorToken(('*',), None)], None),
            '>': lambda: t.LogicalOperatorToken([t.GtOperatorToken(('>',), None)], None),
            '&': lambda: t.AmpersandOperatorToken([t.AmpersandToken(('&',), None)], None),
            '%': lambda: t.PercentOperatorToken([t.PercentToken(('%',), None)], None),
        }[kind]()
        return t.OperatorToken([inner], None)

    def expression(*value):
        return t.ExpressionToken(list(value), None)

    trees = {}
    try:
        five, six = literal('5'), literal('6')
        bracket_start, bracket_finish = t.BracketStartToken(('(',), None), t.BracketFinishToken((')',), None)
        trees['5%'] = percent_of(five)
        trees['expr(5%)'] = expression(percent_of(five))
        trees['5%%'] = percent_of(five, percent_of(six))
        trees['expr(5%%)'] = expression(percent_of(five, percent_of(six)))
        trees['6'] = expression(six)
        for kind in '+*>&%':
            trees[f'5%{kind}6'] = expression(percent_of(five), operator(kind), expression(six))
            trees[f'5%{kind}6%'] = expression(percent_of(five), operator(kind), expression(percent_of(six)))
            trees[f'5%%{kind}6'] = expression(percent_of(five, percent_of(six)), operator(kind), expression(six))
            trees[f'5{kind}6'] = expression(five, operator(kind), expression(six))
            trees[f'5{kind}6%'] = expression(five, operator(kind), expression(percent_of(six)))
            trees[f'(5%){kind}6'] = expression(bracket_start, expression(percent_of(five)), bracket_finish,
                                                operator(kind), expression(six))
            trees[f'(5%{kind}6)'] = expression(bracket_start,
                                                expression(percent_of(five), operator(kind), expression(six)),
                                                bracket_finish)
    except BaseException as error:
        out(f'direct: building trees raises {type(error).__name__}')
    for name, tree in trees.items():
        out(f'direct {name}: {call(ExpressionTokenTranslator.translate, tree, None, Context())}')


def main():
    tmp_dir = tempfile.mkdtemp(prefix='r2_demo_')
    try:
        for index, formula in enumerate(FORMULAS):
            one_formula(tmp_dir, index, formula)
        direct_token_trees()
    finally:
        shutil.rmtree(tmp_dir, ignore_errors=True)
    print(f'lines={_lines} sha256={_digest.hexdigest()}')


if __name__ == '__main__':
    main()
    sys.exit(0)
