"""Equivalence demonstration for r2 (NETWORKDAYS runtime helper `_network_days`, both runtime copies).

Run as: PYTHONPATH=<tree> /venv/bin/python demo.py
Prints a deterministic digest of every result (values, exception class names, emitted call sites);
the output must be identical on the unchanged and the refactored tree.
"""
import datetime
import hashlib
import itertools
import os
import shutil
import sys
import tempfile

import openpyxl

from excel2pycl import Parser, Executor, Cell
from excel2pycl.src.object_loader import load_module
from excel2pycl.src.utilities.abstract_excel_in_python_class import AbstractExcelInPython


class HandWritten(AbstractExcelInPython):
    pass


def show(value):
    return '%s:%r' % (type(value).__name__, value)


def call(function, *args):
    try:
        return show(function(*args))
    except BaseException as error:  # the class name of whatever is raised is part of the digest
        return 'raises ' + type(error).__name__


LINES = []


def emit(line):
    LINES.append(line)
    print(line)


D = datetime.datetime

DATA_ROWS = [
    # A start, B end, C/D holidays
    (D(2023, 4, 1), D(2023, 5, 31), D(2023, 5, 1), D(2023, 5, 8)),
    (D(2023, 5, 31), D(2023, 4, 1), D(2023, 5, 9), 'not a date'),
    (D(2024, 2, 26), D(2024, 3, 3), D(2024, 2, 29), 40),
    (D(2023, 12, 25, 18, 30), D(2024, 1, 5, 6, 15), D(2023, 12, 25, 23, 59), D(2024, 1, 1)),
    (D(2023, 7, 8), D(2023, 7, 9), D(2023, 7, 8), None),
    (D(2023, 7, 7), D(2023, 7, 7), D(2023, 7, 7), D(2023, 7, 7)),
    (40, 'text', None, None),
    (None, None, None, None),
    (D(9999, 12, 1), D(9999, 12, 30), None, None),
    (D(9999, 12, 1), D(9999, 12, 31), None, None),
]

FORMULAS = [
    '=NETWORKDAYS(A1,B1)', '=NETWORKDAYS(A2,B2)', '=NETWORKDAYS(A1,B1,C1:D6)', '=NETWORKDAYS(A2,B2,C1:D6)',
    '=NETWORKDAYS(A3,B3)', '=NETWORKDAYS(A3,B3,C3:D3)', '=NETWORKDAYS(A4,B4)', '=NETWORKDAYS(A4,B4,C4:D4)',
    '=NETWORKDAYS(A5,B5)', '=NETWORKDAYS(A5,B5,C5:C5)', '=NETWORKDAYS(A6,B6)', '=NETWORKDAYS(A6,B6,C6:D6)',
    '=NETWORKDAYS(A7,B7)', '=NETWORKDAYS(A8,B8)', '=NETWORKDAYS(A1,B7)', '=NETWORKDAYS(A9,B9)',
    '=NETWORKDAYS(A10,B10)', '=NETWORKDAYS(B10,A10)', '=NETWORKDAYS(DATE(2023,1,1),DATE(2023,12,31))',
    '=NETWORKDAYS(DATE(2023,12,31),DATE(2023,1,1),C1:D8)', '=NETWORKDAYS(A1,B1,C7:D9)',
    '=NETWORKDAYS(A1,EDATE(A1,3),C1:C4)', '=NETWORKDAYS(EOMONTH(A3,0),A3)', '=NETWORKDAYS(A1,B1)+NETWORKDAYS(A2,B2)',
]


def build_workbook(path):
    book = openpyxl.Workbook()
    sheet = book.active
    sheet.title = 'Days'
    for row_index, row in enumerate(DATA_ROWS, start=1):
        for column_index, value in enumerate(row, start=1):
            if value is not None:
                sheet.cell(row=row_index, column=column_index, value=value)
    for row_index, formula in enumerate(FORMULAS, start=1):
        sheet.cell(row=row_index, column=6, value=formula)
    book.save(path)


def reference(date_start, date_end, holidays):
    """Monday-Friday dates of the inclusive interval minus the listed holidays, negated when reversed."""
    first, last = sorted((date_start.date(), date_end.date()))
    listed = set()
    for row in holidays or []:
        for item in row or []:
            if isinstance(item, D):
                listed.add(item.date())
    count = 0
    for ordinal in range(first.toordinal(), last.toordinal() + 1):
        day = datetime.date.fromordinal(ordinal)
        if day.isoweekday() <= 5 and day not in listed:
            count += 1
    return count if date_start.date() <= date_end.date() else -count


def main():
    workdir = tempfile.mkdtemp(prefix='r2_demo_')
    try:
        xlsx = os.path.join(workdir, 'days.xlsx')
        out_py = os.path.join(workdir, 'days_class.py')
        build_workbook(xlsx)
        parser = Parser().set_excel_file_path(xlsx)
        translation = parser.get_translation()
        parser.write_translation(out_py)

        emit('== emitted call sites ==')
        for line in translation.split('\n'):
            if line.lstrip().startswith('return') and '_network_days(' in line:
                emit(line.strip())

        emit('== workbook through the Executor ==')
        executor = Executor().set_executed_class(class_file=out_py)
        for row_index, formula in enumerate(FORMULAS):
            emit('%-52s -> %s' % (formula, call(lambda: executor.get_cell(Cell(0, 5, row_index)).value)))

        emit('== overrides through the Executor ==')
        overrides = [
            (D(2025, 1, 1), D(2025, 1, 31), D(2025, 1, 1), D(2025, 1, 20)),
            (D(2025, 1, 31), D(2025, 1, 1), D(2025, 1, 1), D(2025, 1, 20)),
            (D(2025, 3, 1), D(2025, 3, 2), 'x', 7),
            (D(2025, 3, 3, 23, 59, 59), D(2025, 3, 3, 0, 0, 1), None, None),
            ('2025-01-01', D(2025, 1, 31), None, None),
            (D(2025, 1, 1), datetime.date(2025, 1, 31), None, None),
            (D(9999, 12, 31), D(9999, 12, 31), None, None),
            (D(1, 1, 1), D(1, 1, 10), D(1, 1, 2), None),
        ]
        for start, end, first_holiday, second_holiday in overrides:
            executor.set_cells([Cell('Days', 'A', '1', value=start), Cell('Days', 'B', '1', value=end),
                                Cell('Days', 'C', '1', value=first_holiday),
                                Cell('Days', 'D', '1', value=second_holiday)])
            for address in ('1', '3', '21'):
                emit('A1:D1=%r F%s -> %s' % ((start, end, first_holiday, second_holiday), address,
                                              call(lambda: executor.get_cell(Cell('Days', 'F', address)).value)))

        emit('== direct calls, both runtime copies ==')
        generated = load_module(out_py).ExcelInPython()
        hand_written = HandWritten()
        per_copy = {}
        for label, instance in (('base', hand_written), ('generated', generated)):
            empty = instance.EmptyCell()
            moments = [
                D(2023, 1, 1), D(2023, 1, 2), D(2023, 1, 6, 12), D(2023, 1, 7), D(2023, 1, 8, 23, 59, 59, 999999),
                D(2023, 1, 9), D(2023, 2, 28), D(2023, 3, 1), D(2024, 2, 28), D(2024, 2, 29, 1), D(2024, 3, 1),
                D(2023, 12, 29), D(2023, 12, 31), D(2024, 1, 1), D(2024, 12, 31), D(2025, 6, 15, 8, 45),
                D(1900, 1, 1), D(1, 1, 1), D(1, 1, 6), D(9999, 12, 24), D(9999, 12, 30), D(9999, 12, 31),
                datetime.date(2023, 1, 2), '2023-01-02', 44927, 44927.5, None, empty, True, [D(2023, 1, 2)],
            ]
            # keep the very long spans out of the cross product: they are covered separately below
            short = [m for m in moments if not (isinstance(m, D) and m.year in (1, 1900, 9999))]
            holiday_sets = [
                None, [], [[]], [None], [[None]], [[D(2023, 1, 2)]], [[D(2023, 1, 2, 15, 30), D(2023, 1, 2)]],
                [[D(2023, 1, 7), D(2023, 1, 8)]], [[D(2023, 1, 3)], [D(2023, 1, 4)], None, [D(2023, 1, 5), 'x', 5, None]],
                [[datetime.date(2023, 1, 3)]], [[D(2024, 2, 29), D(2024, 1, 1), D(2023, 12, 29)], [empty, 0, '']],
                ((D(2023, 1, 2),), (D(2024, 2, 29),)), [(D(2023, 2, 28), D(2023, 3, 1))], 'abc', [[44928]],
                D(2023, 1, 2), 5, 0, '', empty, [5], [[D(2023, 1, 2)], 5], {D(2023, 1, 2): 1}, [{D(2023, 1, 3): 1}],
                [[D(2022, 1, 1)]], [[D(2023, 1, d) for d in range(1, 32)]], True, [True], [[True]], [''], ['ab'],
            ]
            digest = hashlib.sha256()
            results = []
            reference_failures = 0
            for start, end in itertools.product(short, short):
                for holidays in holiday_sets:
                    result = call(instance._network_days, start, end, holidays)
                    results.append(result)
                    digest.update(('%r|%r|%r -> %s\n' % (start, end, holidays, result)).encode())
                    if isinstance(start, D) and isinstance(end, D) and (holidays is None or (
                            isinstance(holidays, list) and all(isinstance(r, (list, type(None))) for r in holidays))):
                        if result != show(reference(start, end, holidays)):
                            reference_failures += 1
                # the two-argument form (default holidays)
                result = call(instance._network_days, start, end)
                results.append(result)
                digest.update(('%r|%r -> %s\n' % (start, end, result)).encode())
            per_copy[label] = results
            emit('%s: %d calls, sha256 %s, disagreements with the brute-force reference %d'
                 % (label, len(results), digest.hexdigest(), reference_failures))

            emit('-- %s: boundary samples --' % label)
            samples = [
                (D(2023, 4, 1), D(2023, 5, 31), None), (D(2023, 5, 31), D(2023, 4, 1), None),
                (D(2023, 4, 1), D(2023, 5, 31), [[D(2023, 5, 1), D(2023, 5, 8)], [40, 'ewewwewe']]),
                (D(2023, 1, 7), D(2023, 1, 8), None), (D(2023, 1, 8), D(2023, 1, 7), None),
                (D(2023, 1, 6), D(2023, 1, 6), None), (D(2023, 1, 6), D(2023, 1, 6), [[D(2023, 1, 6, 9)]]),
                (D(2023, 1, 6, 23), D(2023, 1, 6, 1), None), (D(2023, 1, 9, 1), D(2023, 1, 6, 23), None),
                (D(1, 1, 1), D(1, 1, 6), None), (D(1, 1, 6), D(1, 1, 1), [[D(1, 1, 2)]]),
                (D(9999, 12, 24), D(9999, 12, 30), None), (D(9999, 12, 30), D(9999, 12, 24), [[D(9999, 12, 27)]]),
                (D(9999, 12, 24), D(9999, 12, 31), None), (D(9999, 12, 31), D(9999, 12, 24), None),
                (D(9999, 12, 31), D(9999, 12, 31), None), (D(9999, 12, 31), D(9999, 12, 31), 5),
                (D(9999, 12, 31), D(9999, 12, 31), [5]), (D(9999, 12, 31), 'x', 5), ('x', D(9999, 12, 31), 5),
                (D(1900, 1, 1), D(2100, 12, 31), None), (D(2100, 12, 31), D(1900, 1, 1), [[D(2000, 2, 29)], None]),
                (D(2023, 1, 1), D(2023, 1, 31), D(2023, 1, 2)), (D(2023, 1, 1), D(2023, 1, 31), 7),
                (D(2023, 1, 1), D(2023, 1, 31), [7]), (D(2023, 1, 1), D(2023, 1, 31), 'abc'),
                (datetime.date(2023, 1, 1), D(2023, 1, 31), [7]), (None, None, [7]),
            ]
            for start, end, holidays in samples:
                emit('%s _network_days(%r, %r, %r) -> %s'
                     % (label, start, end, holidays, call(instance._network_days, start, end, holidays)))

            emit('-- %s: the holiday argument is not modified --' % label)
            holidays = [[D(2023, 1, 2), 'x'], None, [D(2023, 1, 3)]]
            before = repr(holidays)
            instance._network_days(D(2023, 1, 1), D(2023, 1, 31), holidays)
            emit('%s holidays untouched: %s' % (label, before == repr(holidays)))

            emit('-- %s: year sweep against the reference --' % label)
            sweep = hashlib.sha256()
            failures = 0
            for year in (1999, 2000, 2023, 2024, 2100):
                for month in range(1, 13):
                    start = D(year, month, 1)
                    end = D(year + (month // 12), month % 12 + 1, 1) - datetime.timedelta(days=1)
                    off = [[D(year, month, 1), D(year, month, 15, 12)], None, [D(year, month, 28), 'n/a']]
                    for arguments in ((start, end, None), (end, start, None), (start, end, off), (end, start, off)):
                        value = instance._network_days(*arguments)
                        failures += value != reference(*arguments)
                        sweep.update(repr(value).encode() + b',')
            emit('%s sweep sha256 %s, disagreements with the reference %d' % (label, sweep.hexdigest(), failures))

        emit('== agreement of the two copies ==')
        emit('copies agree on every direct call: %s' % (per_copy['base'] == per_copy['generated']))
    finally:
        shutil.rmtree(workdir, ignore_errors=True)

    total = hashlib.sha256('\n'.join(LINES).encode()).hexdigest()
    print('TOTAL %d lines, sha256 %s' % (len(LINES), total))
    return 0


if __name__ == '__main__':
    sys.exit(main())
