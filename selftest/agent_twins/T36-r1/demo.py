"""Equivalence demonstration for r1 (ROUND / ROUNDUP / ROUNDDOWN runtime helpers, both copies).

Calls the three rounding helpers of the library class and of a freshly generated class on a large
deterministic set of numbers and digit counts (including boundary and rejected ones) and evaluates
workbook formulas through Parser/Executor. Prints a deterministic digest.
"""
import hashlib
import os
import random
import shutil
import sys
import tempfile
from decimal import Decimal
from fractions import Fraction

from openpyxl import Workbook

from excel2pycl import Parser, Executor, Cell
from excel2pycl.src.object_loader import load_module
from excel2pycl.src.utilities.abstract_excel_in_python_class import AbstractExcelInPython


class Lib(AbstractExcelInPython):
    pass


def show(value):
    return f'{type(value).__name__}:{value!r}'


def call(function, *args):
    try:
        return show(function(*args))
    except BaseException as error:  # the class name and the message are both part of the behaviour
        return f'raised {type(error).__name__}: {error}'


def numbers():
    fixed = [0, 0.0, -0.0, 1, -1, 2.5, -2.5, 0.5, -0.5, 1.5, 3.5, 0.125, 0.375, 1.005, 2.675, 1.015, 1.025, 1.045,
             8.325, 0.285, 1.255, 1.2345, 5.015, 0.1 + 0.2, 1 / 3, 2 / 3, 123456789012345, 12345678901234.5,
             1234567890.12345, 0.000123456789012345, 999999999999999, 0.999999999999999, 9.99999999999999e14,
             1e15, 1e16, 1e21, 1e22, 1e100, 1e300, 1.7976931348623157e308, 5e-324, 2.2250738585072014e-308,
             1e-7, 1e-15, 1e-16, 0.049999999999999996, 0.05, 0.15, 0.25, 0.35, 14.5, 15.5, 149.99999999999997,
             150, 250, 350, -150, -250, 5, 50, 500, 4.999999999999999, 1234.5678, -1234.5678, 99.995, -99.995,
             9.995, 0.995, 0.0995, 7.45, 7.55, 0.045, 1e-5, 123.456e5, 2 ** 53, 2 ** 53 + 1, -(2 ** 63),
             10 ** 30, True, False]
    rnd = random.Random(20241)
    for _ in range(700):
        digits = rnd.randint(1, 15)
        mantissa = rnd.randint(1, 10 ** digits - 1)
        exponent = rnd.randint(-18, 6)
        fixed.append(float(Decimal(rnd.choice([1, -1]) * mantissa).scaleb(exponent)))
    for _ in range(150):
        # exact ties at a random position
        digits = rnd.randint(0, 6)
        fixed.append(float(Decimal(rnd.randint(-10 ** 6, 10 ** 6) * 10 + 5).scaleb(-digits - 1)))
    return fixed


def odd_numbers(lib):
    return [lib.EmptyCell(), '3.14159', ' 2.5 ', '1e3', '-7.5', '', 'abc', '#N/A', None, [], [1], (2,), {},
            float('nan'), float('inf'), float('-inf'), Decimal('2.675'), Decimal('1E+2'), Fraction(5, 2),
            1 + 2j, b'2.5', '1_0.5', 'nan', 'inf', '٢.٥']


DIGITS = list(range(-20, 21)) + [-400, -399, -385, -324, -323, -308, -100, 100, 308, 323, 324, 340, 383, 384, 385,
                                 399, 400, 401, 1000, -1000, 10 ** 6, -10 ** 6, 10 ** 19, -10 ** 19]
ODD_DIGITS = [2.7, -2.7, 0.5, -0.5, 2.0, '2', '-1', ' 3 ', '2.5', '', 'x', None, True, False, [], float('nan'),
              float('inf'), Decimal('1.9'), Fraction(7, 2), 1e20, b'1', '1_0']


def exercise(instance, label, out):
    helpers = [('round', instance._round), ('roundup', instance._roundup), ('rounddown', instance._rounddown)]
    nums = numbers()
    odd = odd_numbers(instance)
    for name, helper in helpers:
        for number in nums:
            for digits in range(-6, 17):
                out.append(f'{label} {name}({number!r},{digits}) = {call(helper, number, digits)}')
        for number in nums[:120] + odd:
            for digits in DIGITS + ODD_DIGITS:
                out.append(f'{label} {name}({number!r},{digits!r}) = {call(helper, number, digits)}')
        # arity
        out.append(f'{label} {name}() = {call(helper)}')
        out.append(f'{label} {name}(1.5) = {call(helper, 1.5)}')
        out.append(f'{label} {name}(1.5,0,0) = {call(helper, 1.5, 0, 0)}')
    # a value representable at the requested precision comes back unchanged
    same = 0
    for number in nums:
        if isinstance(number, float) and number == number and abs(number) < 1e15:
            text = format(number, '.15g')
            if 'e' not in text:
                places = len(text.partition('.')[2])
                same += all(helper(number, places) == float(text) for _, helper in helpers)
    out.append(f'{label} unchanged when representable: {same}')


FORMULAS = [
    '=ROUND(A{r},B{r})', '=ROUNDUP(A{r},B{r})', '=ROUNDDOWN(A{r},B{r})', '=ROUNDUP(A{r})', '=ROUNDDOWN(A{r})',
    '=ROUNDUP(A{r},)', '=ROUNDDOWN(A{r},)', '=ROUND(A{r},0)', '=ROUND(A{r}*100,-1)/100', '=ROUND(A{r}%,B{r}+2)',
    '=ROUNDUP(ROUND(A{r},B{r}+1),B{r})', '=ROUND(-A{r},B{r})', '=ROUNDDOWN(A{r}/3,B{r})', '=ROUND(SUM(A{r}:B{r}),1)',
    '=IFERROR(ROUND(A{r},B{r}),"err")', '=ROUND(A{r},B{r})=ROUNDUP(A{r},B{r})',
]
ROWS = [(2.5, 0), (-2.5, 0), (1.005, 2), (2.675, 2), (1234.5678, -2), (0.000123456, 7), (123456789012345, -5),
        (0.1 + 0.2, 15), (149.99999999999997, -2), (5e-324, 3), (1e15, 2), (None, 0), (7, None), ('text', 1),
        (3.14159, 'x'), (True, 1), ('12.345', 2), (99.995, 2), (-0.5, 0), (0.5, 0)]


def workbook_part(tmp, out):
    path = os.path.join(tmp, 'round.xlsx')
    wb = Workbook()
    ws = wb.active
    ws.title = 'R'
    for index, (number, digits) in enumerate(ROWS, start=1):
        ws.cell(row=index, column=1, value=number)
        ws.cell(row=index, column=2, value=digits)
        for offset, formula in enumerate(FORMULAS):
            ws.cell(row=index, column=3 + offset, value=formula.format(r=index))
    wb.save(path)
    wb.close()
    out_py = os.path.join(tmp, 'round_translated.py')
    text = Parser().set_excel_file_path(path).write_translation(out_py).get_translation()
    cell_functions = text[text.index('    def _0_0_0(self):'):]
    out.append('cell functions sha256 ' + hashlib.sha256(cell_functions.encode()).hexdigest())
    out.extend('  ' + line for line in cell_functions.splitlines()[:40])

    def evaluate(executor, label):
        for row in range(len(ROWS)):
            for column in range(2, 2 + len(FORMULAS)):
                out.append(f'{label} R{row + 1}C{column + 1} = '
                           f'{call(lambda: executor.get_cell(Cell(0, column, row)).value)}')

    executor = Executor().set_executed_class(class_file=out_py)
    evaluate(executor, 'sheet')
    executor.set_cells([Cell('R', 'A', str(r), value=v) for r, v in
                        [(1, 3.5), (2, -3.5), (3, 1.0049999999999999), (4, '2.675'), (5, 15), (6, None), (12, 8.125)]]
                       + [Cell(0, 1, r, value=v) for r, v in [(0, 1), (4, 1), (5, -1), (11, 2), (12, '1')]])
    evaluate(executor, 'override')
    # the generated class carries its own copy of the helpers
    generated = load_module(out_py).ExcelInPython()
    exercise(generated, 'generated', out)


def main():
    out = []
    exercise(Lib(), 'library', out)
    tmp = tempfile.mkdtemp(prefix='t36_r1_')
    try:
        workbook_part(tmp, out)
    finally:
        shutil.rmtree(tmp, ignore_errors=True)
    blob = '\n'.join(out)
    print('lines', len(out))
    print('sha256', hashlib.sha256(blob.encode()).hexdigest())
    raised = {}
    for line in out:
        if ' = raised ' in line:
            kind = line.split(' = raised ')[1].split(':')[0]
            raised[kind] = raised.get(kind, 0) + 1
    print('raised', sorted(raised.items()))
    for line in out[::997]:
        print(line)
    for line in out:
        if line.startswith(('sheet', 'override', '  ', 'cell functions')) or 'unchanged' in line:
            print(line)
    return 0


if __name__ == '__main__':
    sys.exit(main())
