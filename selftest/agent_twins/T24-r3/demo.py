"""Equivalence demo for r3: LEFT / RIGHT / MID runtime helpers (C17).

Calls _left, _right and _mid of both copies of the runtime class (the AbstractExcelInPython
class and the class printed from the template) on a grid of texts, counts and positions,
then evaluates a translated workbook of LEFT/RIGHT/MID/& formulas (also after overriding
the text cell).  Prints every result with its type.
"""
import datetime
import hashlib
import os
import shutil
import sys
import tempfile
import warnings

warnings.simplefilter('ignore')

from openpyxl import Workbook

from excel2pycl import Parser, Executor, Cell
from excel2pycl.src.utilities.abstract_excel_in_python_class import AbstractExcelInPython


class Direct(AbstractExcelInPython):
    pass


class Text(str):
    """A str subclass: slices of it are plain str, the object itself is not."""


def outcome(function, *args):
    try:
        value = function(*args)
        return f'value {type(value).__name__} {value!r}'
    except BaseException as error:  # noqa
        return 'raised ' + error.__class__.__name__ + ': ' + str(error)


def texts(empty):
    return ['', 'a', 'ab', 'hello', 'héllo wörld', '\U0001F600ab', 'x' * 40 + 'yz', ' ', ' pad ', 'tab\tnl\n',
            Text('subclass'), Text(''), empty(), 0, 123, 12.5, None, True, False, [1, 2, 3], [], ('a', 'b', 'c'), b'bytes',
            datetime.datetime(2024, 1, 1), range(5)]


def counts(empty):
    return [None, -10 ** 30, -5, -1, 0, 1, 2, 3, 4, 5, 6, 11, 42, 100, 10 ** 30, True, False, empty(),
            1.0, 2.5, -0.5, 0.0, float('nan'), float('inf'), float('-inf'), '2', '', [1], (2,)]


def starts(empty):
    return [-10 ** 30, -1, 0, 1, 2, 3, 5, 6, 7, 11, 42, 43, 10 ** 30, True, False, empty(),
            1.0, 1.5, 0.5, float('nan'), float('inf'), '1', None, [1]]


def grid(label, instance, lines):
    empty = instance.EmptyCell
    for text in texts(empty):
        for num_chars in counts(empty):
            lines.append(f'{label} left {text!r} {num_chars!r} -> {outcome(instance._left, text, num_chars)}')
            lines.append(f'{label} right {text!r} {num_chars!r} -> {outcome(instance._right, text, num_chars)}')
            for start_num in starts(empty):
                lines.append(f'{label} mid {text!r} {start_num!r} {num_chars!r} -> '
                             f'{outcome(instance._mid, text, start_num, num_chars)}')
    # the algebra: LEFT(t,n) & MID(t,n+1,len) rebuilds t, LEFT(t,n) & RIGHT(t,len-n) as well
    for text in ['a', 'ab', 'hello', 'héllo wörld', '\U0001F600ab', 'x' * 40 + 'yz']:
        for n in range(0, len(text)):
            head, tail, back = instance._left(text, n), instance._mid(text, n + 1, len(text)), \
                instance._right(text, len(text) - n)
            lines.append(f'{label} rebuild {text!r} {n} -> {type(head).__name__} {head!r} | {tail!r} | {back!r} | '
                         f'{instance._excel_value_to_string(head) + instance._excel_value_to_string(tail) == text}')
    # positional / keyword calling conventions of the public helpers
    lines.append(f'{label} kw -> {outcome(lambda: instance._left(text="hello", num_chars=2))}')
    lines.append(f'{label} kw -> {outcome(lambda: instance._right(text="hello", num_chars=2))}')
    lines.append(f'{label} kw -> {outcome(lambda: instance._mid(text="hello", start_num=2, num_chars=2))}')
    lines.append(f'{label} arity -> {outcome(lambda: instance._left("hello"))}')
    lines.append(f'{label} arity -> {outcome(lambda: instance._right("hello", 1, 2))}')
    lines.append(f'{label} arity -> {outcome(lambda: instance._mid("hello", 1))}')


FORMULAS = [
    '=LEFT(A1)', '=LEFT(A1,0)', '=LEFT(A1,1)', '=LEFT(A1,3)', '=LEFT(A1,5)', '=LEFT(A1,6)', '=LEFT(A1,100)', '=LEFT(A1,-1)',
    '=RIGHT(A1)', '=RIGHT(A1,0)', '=RIGHT(A1,1)', '=RIGHT(A1,3)', '=RIGHT(A1,5)', '=RIGHT(A1,6)', '=RIGHT(A1,100)',
    '=RIGHT(A1,-1)', '=LEFT(A1,B1)', '=RIGHT(A1,B1)', '=MID(A1,B1,C1)', '=LEFT(A1,A9)', '=RIGHT(A1,A9)',
    '=MID(A1,1,1)', '=MID(A1,1,5)', '=MID(A1,2,3)', '=MID(A1,5,1)', '=MID(A1,5,10)', '=MID(A1,6,1)', '=MID(A1,7,1)',
    '=MID(A1,0,1)', '=MID(A1,-1,1)', '=MID(A1,1,0)', '=MID(A1,1,-1)', '=MID(A1,0,-1)', '=MID(A1,100,-1)', '=MID(A1,1,A9)',
    '=LEFT(A9)', '=LEFT(A9,2)', '=RIGHT(A9,2)', '=MID(A9,1,2)', '=LEFT("",2)', '=RIGHT("",2)', '=MID("",1,2)',
    '=LEFT(A1,2)&MID(A1,3,5)', '=LEFT(A1,0)&MID(A1,1,5)', '=LEFT(A1,4)&MID(A1,5,5)', '=LEFT(A1,5)&MID(A1,6,5)',
    '=LEFT(A1,2)&RIGHT(A1,3)', '=CONCATENATE(LEFT(A1,2),MID(A1,3,5))', '=CONCATENATE(LEFT(A1,1),"-",RIGHT(A1,1))',
    '=LEFT(A1,2)&MID(A1,3,5)=A1', '=LEFT(A1&B1,6)', '=RIGHT(A1&B1,2)', '=MID(A1&"-"&B1,5,3)',
    '=LEFT(RIGHT(A1,4),2)', '=MID(LEFT(A1,4),2,10)', '=LEFT(A1,1+1)', '=RIGHT(A1,C1-1)', '=LEFT(D1,2)', '=RIGHT(D1,2)',
    '=MID(D1,2,2)', '=LEFT(D1)', '=IFERROR(LEFT(D1,2),"err")', '=IFERROR(MID(A1,0,1),"err")', '=IFERROR(LEFT(A1,-1),"err")',
]


def build_workbook(path):
    wb = Workbook()
    ws = wb.active
    ws.title = 'txt'
    for column, value in enumerate(['hello', 2, 3, 12345], start=1):
        ws.cell(row=1, column=column, value=value)
    for offset, formula in enumerate(FORMULAS):
        ws.cell(row=11 + offset, column=1, value=formula)
    wb.save(path)


def main():
    lines = []
    tmp = tempfile.mkdtemp(prefix='t24_r3_')
    try:
        xlsx = os.path.join(tmp, 'txt.xlsx')
        out_py = os.path.join(tmp, 'txt_translated.py')
        build_workbook(xlsx)
        Parser().set_excel_file_path(xlsx).write_translation(out_py)
        executor = Executor().set_executed_class(class_file=out_py)

        def evaluate(tag):
            for offset, formula in enumerate(FORMULAS):
                lines.append(f'{tag} {formula!r} -> '
                             f'{outcome(lambda: executor.get_cell(Cell(0, 0, 10 + offset)).value)}')

        evaluate('workbook')
        for number, (text, b, c) in enumerate([('', 1, 1), ('a', 1, 1), ('héllo wörld', 4, 6), ('abcdef', 0, 0),
                                               ('abcdef', 6, 7), ('abcdef', 7, -1), (12345, 2, 2), ('abc', 2.0, 1)]):
            executor.set_cells([Cell(0, 0, 0, value=text), Cell(0, 1, 0, value=b), Cell(0, 2, 0, value=c)])
            evaluate(f'override{number}')

        grid('class', Direct(), lines)
        grid('template', executor.get_executed_class(), lines)
    finally:
        shutil.rmtree(tmp, ignore_errors=True)

    shown = 0
    for line in lines:
        # the mid grid is large: print every 7th line of it, everything else in full; the hash covers all lines
        if ' mid ' in line and not line.startswith(('workbook', 'override')):
            shown += 1
            if shown % 7:
                continue
        print(line)
    print('lines', len(lines))
    print('sha256', hashlib.sha256('\n'.join(lines).encode('utf-8')).hexdigest())


if __name__ == '__main__':
    main()
    sys.exit(0)
