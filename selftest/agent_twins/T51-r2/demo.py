"""Equivalence demo for r2 (C11: aggregates fold the numeric cells of their arguments).

Part 1 calls the runtime helpers (_flatten_list, _find_error_in_list, _only_numeric_list, _sum, _average,
_min, _max, _count, _count_blank, _and, _or) directly on BOTH copies of the runtime class -- the class in
abstract_excel_in_python_class.py and the class generated from the template in context.py -- with many
ordinary, boundary and hostile inputs.  Part 2 builds workbooks with aggregate formulas over rows, columns,
rectangles, whole columns, several areas and other sheets, translates them through the Parser facade and
evaluates every formula with the Executor under several sets of overrides.
Prints values (with types), exception class names and a digest.
"""
import datetime
import hashlib
import itertools
import os
import shutil
import sys
import tempfile

from openpyxl import Workbook
from openpyxl.utils import get_column_letter

from excel2pycl import Parser, Executor, Cell
from excel2pycl.src.context import Context
from excel2pycl.src.object_loader import load_module
from excel2pycl.src.utilities.abstract_excel_in_python_class import AbstractExcelInPython


class Direct(AbstractExcelInPython):
    pass


class Odd:
    """An operand with its own idea of equality and truth."""

    def __init__(self, name, equal_to=(), truth=True):
        self.name, self.equal_to, self.truth = name, equal_to, truth
        self.log = []

    def __eq__(self, other):
        self.log.append(('eq', repr(other)))
        return any(other is e or (type(other) is type(e) and str(other) == str(e)) for e in self.equal_to)

    def __hash__(self):
        return 1

    def __bool__(self):
        self.log.append(('bool',))
        return self.truth

    def __repr__(self):
        return f'Odd({self.name})'


class MyInt(int):
    pass


class MyFloat(float):
    pass


class MyStr(str):
    pass


class MyList(list):
    pass


def show(value):
    if isinstance(value, list):
        return 'list:[' + ', '.join(show(v) for v in value) + ']'
    if isinstance(value, tuple):
        return 'tuple:(' + ', '.join(show(v) for v in value) + ')'
    return f'{type(value).__name__}:{value!r}'


def flat_inputs(runtime):
    empty = runtime.EmptyCell
    dt = datetime.datetime(2024, 2, 29, 12, 30)
    d = datetime.date(2024, 2, 29)
    cases = [
        [],
        [1], [1.5], [0], [-0.0], [True], [False], [None], [''], ['a'], ['1'], ['12'], ['1.5'], ['-3'], [' 7'],
        [empty()], [dt], [d],
        [1, 2, 3], [3, 2, 1], [1, 2.5, -7, 0], [1e308, 1e308], [1e308, -1e308], [float('nan'), 1], [1, float('nan')],
        [float('inf'), -float('inf')], [2 ** 70, 1], [0.1, 0.2, 0.3], [0.1] * 10,
        [1, 'a', True, None, '', empty(), 2.5, dt, d, '7'],
        ['a', 'b'], [True, False, True], [None, None], ['', '', None, empty(), 0, 0.0, False],
        [empty(), empty()], [empty(), 1], [0, empty()],
        ['#N/A'], [1, '#DIV/0!', 2], ['#VALUE!', '#NUM!'], ['#NUM!', '#VALUE!'], ['#REF!', 5], ['#NAME?'], ['#NULL!'],
        ['#n/a'], ['#N/A '], ['#ERROR!'], [MyStr('#N/A'), 3], [1, 2, MyStr('#REF!')], ['', '#N/A'], [None, '#NUM!', None],
        [MyInt(5), 1], [MyFloat(2.5), 1], [MyInt(5)], [MyStr('12')], [MyStr('')],
        [[1, 2], 3], [[1, [2, [3, [4]]]], [[]], []], [(1, 2), 3], [MyList([1, 2]), 3], [[None], [''], ['#N/A']],
        [[1, 'x'], [True, 2.5], [empty(), dt]], [[[]]], [[], []],
        (1, 2, 3), (1, [2, 3], (4,)), 'abc', '', '#N/A', {'a': 1, '#N/A': 2}, {1, 2} if False else frozenset([3]),
        range(4), b'ab', None, 5, 2.5, True, empty(),
        [1, [2, None]], [dt, dt, d], [d], [datetime.time(1, 2)], [datetime.timedelta(days=1)],
        [complex(1, 2)], [b'x'], [[1], '#N/A', [2]], [1, 2, [3, '#REF!']],
    ]
    cases += [list(p) for p in itertools.permutations([2, '#NUM!', None, 'x'], 4)][:12]
    cases += [list(p) for p in itertools.product([1, '', None, True, '#N/A'], repeat=3)][::7]
    return cases


HELPERS = ['_flatten_list', '_find_error_in_list', '_only_numeric_list', '_only_bool_list', '_only_datetime_list',
           '_sum', '_average', '_min', '_max', '_count_blank', '_and', '_or']


def call(out, label, function, *args):
    try:
        out(f'{label} = {show(function(*args))}')
    except RecursionError:
        out(f'{label} raises RecursionError')
    except Exception as e:
        out(f'{label} raises {type(e).__name__}: {str(e)[:70]}')


def direct_part(out, tag, runtime):
    for number, case in enumerate(flat_inputs(runtime)):
        for helper in HELPERS:
            call(out, f'{tag} {helper} #{number} {show(case)[:90]}', getattr(runtime, helper), case)
        # the composition the translators print
        call(out, f'{tag} sum.numeric.flatten #{number}', lambda c: runtime._sum(runtime._only_numeric_list(
            runtime._flatten_list(c))), case)
        call(out, f'{tag} max.numeric.flatten #{number}', lambda c: runtime._max(runtime._only_numeric_list(
            runtime._flatten_list(c))), case)
        call(out, f'{tag} min.flatten #{number}', lambda c: runtime._min(runtime._flatten_list(c)), case)
        call(out, f'{tag} count_blank.flatten #{number}', lambda c: runtime._count_blank(runtime._flatten_list(c)), case)

    # one-shot iterators: how often and how far the helpers read their argument
    for helper in HELPERS:
        for items in ([1, 2, 3], [1, '#N/A', 2, '#REF!', 3], ['', None, 1], []):
            iterator = iter(items)
            call(out, f'{tag} {helper} iter({items!r})', getattr(runtime, helper), iterator)
            out(f'{tag}   rest {list(iterator)!r}')

    # operands with their own equality and truth
    for equal_to, truth in itertools.product([(), ('#N/A',), ('',), ('#VALUE!', ''), (None,)], [True, False]):
        for helper in ['_find_error_in_list', '_min', '_max', '_count_blank', '_and', '_or', '_only_numeric_list']:
            odd = Odd(f'{equal_to!r},{truth}', equal_to, truth)
            call(out, f'{tag} {helper} [1, {odd!r}, 7, "#NUM!"]', getattr(runtime, helper), [1, odd, 7, '#NUM!'])
            out(f'{tag}   log {odd.log!r}')
            odd = Odd(f'{equal_to!r},{truth}', equal_to, truth)
            call(out, f'{tag} {helper} [{odd!r}, 4]', getattr(runtime, helper), [odd, 4])
            out(f'{tag}   log {odd.log!r}')

    # _count(matrices, args, args_cells)
    empty = runtime.EmptyCell
    dt = datetime.datetime(2020, 1, 1)
    matrices_cases = [[], [[[1, 2], [3, 'a']]], [[[1, None], [True, dt]], [[empty(), '5']]], [[[]]], [[[dt], [dt]]],
                      [[[1.5, '#N/A']]], [[1, 2]], [1, 2], (), None, [[['7', True, False]]]]
    args_cases = [[], [1], ['1'], ['12', 'a', '1.5'], [True, False], [1, True, '3', 2.5, dt, None, ''], ['-1', ' 2'],
                  (1, '2', True), None, 'ab', ['#N/A', 4], [empty()], [MyStr('8'), MyInt(3)], [datetime.date(2020, 1, 1)]]
    cells_cases = [[], [1], ['1'], [True], [dt, 2, 'x', None, empty()], (1, 2), None, [2.5, '#REF!'], [[1, 2]]]
    for m, a, c in itertools.product(range(len(matrices_cases)), range(len(args_cases)), range(len(cells_cases))):
        if (m * 31 + a * 7 + c * 3) % 4 == 0 or (a == 0 and c == 0) or (m == 0 and c == 0) or (m == 0 and a == 0):
            call(out, f'{tag} _count m{m} a{a} c{c}', runtime._count, matrices_cases[m], args_cases[a], cells_cases[c])
    for items in ([1, True, '3', 'x'], []):
        iterator = iter(items)
        call(out, f'{tag} _count args=iter({items!r})', runtime._count, [[[1]]], iterator, [2])
        out(f'{tag}   rest {list(iterator)!r}')

    # deep and cyclic nesting
    deep = []
    for _ in range(200):
        deep = [deep, 1]
    call(out, f'{tag} _sum.flatten deep200', lambda c: runtime._sum(runtime._flatten_list(c)), deep)
    cyclic = [1]
    cyclic.append(cyclic)
    call(out, f'{tag} _flatten_list cyclic', runtime._flatten_list, cyclic)
    shared = [1, 2]
    flat = runtime._flatten_list([shared, shared, [shared]])
    flat.append(99)
    out(f'{tag} aliasing {shared!r} {flat!r}')
    source = [[1], 2]
    result = runtime._flatten_list(source)
    out(f'{tag} fresh list {result is not source} {source!r}')

    # the names the class exposes (cells are looked up by name in the class)
    names = sorted(n for n in dir(type(runtime)) if not (n.startswith('_') and n[1:2].isdigit()))
    out(f'{tag} names {hashlib.sha256(" ".join(names).encode()).hexdigest()[:16]} {len(names)}')
    for name in ['_ERROR_VALUES', '_error_values', '_fold', '_nope']:
        call(out, f'{tag} exec_function_in({name!r})', runtime.exec_function_in, name)


AREAS = ['A1:A8', 'A1:C1', 'A1:C8', 'B2:C5', 'A:A', 'B:B', 'A:C', 'C3:C3', 'A4:A5', 'Other!A1:B3', 'Other!A:A',
         "'Other'!B1:B3", 'E1:F2', 'A9:C9', 'A1:A20']
SCALARS = ['A1', 'B3', 'A4', 'C5', '5', '2.5', '"7"', '"x"', 'TRUE', 'FALSE', 'Other!A1', 'A1+B1', 'A1*2', '-A1', '50%',
           'A10', 'C8']
FUNCTIONS = ['SUM', 'AVERAGE', 'MIN', 'MAX', 'COUNT', 'COUNTBLANK', 'AND', 'OR']


def formulas():
    result = []
    for function in FUNCTIONS:
        for area in AREAS:
            result.append(f'={function}({area})')
        for scalar in SCALARS:
            result.append(f'={function}({scalar})')
        for first, second in itertools.product(AREAS[:9] + AREAS[9:11], repeat=2):
            if (len(first) * 5 + len(second) * 3 + len(function)) % 3 == 0:
                result.append(f'={function}({first},{second})')
        for area, scalar in itertools.product(AREAS[:6] + AREAS[9:10], SCALARS):
            if (len(area) + len(scalar) * 7 + len(function)) % 4 == 0:
                result.append(f'={function}({area},{scalar})')
                result.append(f'={function}({scalar};{area})')
        result.append(f'={function}(A1:A3,A1:A3)')
        result.append(f'={function}(A1:A3,A2:A5,A1)')
        result.append(f'={function}(A1,B1,C1,A2,B2,C2)')
        result.append(f'={function}(A1:C2)')
        result.append(f'={function}(A1:C1,A2:C2)')
        result.append(f'={function}(A1:A2,B1:B2,C1:C2)')
        result.append(f'={function}(1,2,3)')
        result.append(f'={function}(A1:A3)+{function}(A4:A8)')
        result.append(f'={function}({function}(A1:A3),{function}(A4:A8))')
        result.append(f'={function}(A1:A8)={function}(A1:A4,A5:A8)')
        result.append(f'={function}()')
        result.append(f'={function}(A1:A3,)')
        result.append(f'={function}(D1:D3)')
    result += ['=SUM(A1:C8)-SUM(A1:A8)-SUM(B1:B8)-SUM(C1:C8)', '=SUM(A:A,B:B,C:C)=SUM(A:C)', '=AVERAGE(A1:A8)*COUNT(A1:A8)',
               '=MAX(A1:C8)-MIN(A1:C8)', '=IF(AND(A1>0,B1>0),SUM(A1:B1),MAX(A1:B1))', '=OR(A4,B4)', '=AND(A4)',
               '=AND(A1:A3)', '=OR(A5:A6)', '=COUNT(A1:C8,1,"2",TRUE,"x")', '=COUNT(A1,A4,A5,A6,A7)', '=COUNT("1","1.5","-1")',
               '=COUNTBLANK(A1:C8)+COUNT(A1:C8)', '=COUNTBLANK(A4,A5)', '=SUM(A1:A8)/COUNT(A1:A8)=AVERAGE(A1:A8)',
               '=SUM(Other!A1:B3,A1:A3)', '=SUM(Other!A1:B3)+SUM(A1:A3)', '=MIN(Other!A:A,A:A)', '=MAX(Other!C1:C3)',
               '=AVERAGE(Other!C1:C3)', '=SUM(Nope!A1:A2)', '=SUM(A1:B2:C3)', '=SUM(A1:)', '=SUM(A1 A2)']
    seen = set()
    return [f for f in result if not (f in seen or seen.add(f))]


DATA = [
    # A      B       C
    [3,      0.5,    'text'],                         # 1
    [4.5,    -2,     True],                           # 2
    [-7,     None,   10],                             # 3
    [None,   None,   None],                           # 4
    ['abc',  '12',   False],                          # 5
    [True,   1e3,    datetime.datetime(2024, 1, 2)],  # 6
    ['10',   0,      2.25],                           # 7
    [0,      7,      None],                           # 8
]

OVERRIDE_SETS = [
    [],
    [('Main', 'A', '1', 100), ('Main', 'B', '3', 50), ('Main', 'C', '1', 5)],
    [('Main', 'A', '1', None), ('Main', 'A', '2', ''), ('Main', 'A', '3', 'n')],
    [('Main', 'A', '1', True), ('Main', 'B', '1', False), ('Main', 'C', '1', '3')],
    [('Main', 'A', '4', 1.25), ('Main', 'B', '4', '#N/A'), ('Main', 'C', '4', 8)],
    [('Main', 'A', '2', '#DIV/0!'), ('Main', 'C', '3', '#VALUE!')],
    [('Main', 'A', '12', 9), ('Main', 'D', '2', 4), ('Other', 'A', '1', -1), ('Other', 'C', '2', 6)],
    [('Main', 'A', '1', [1, 2]), ('Main', 'B', '1', [[3], ['x']]), ('Main', 'C', '3', [])],
    [('Main', 'A', '1', float('nan')), ('Main', 'A', '2', float('inf')), ('Main', 'A', '3', 1e308), ('Main', 'B', '7', 1e308)],
    [('Main', 'A', '1', datetime.datetime(2020, 5, 5)), ('Main', 'B', '2', datetime.date(2020, 5, 5))],
]


ROWS_PER_COLUMN = 40


def place(index):
    """Formula number index lives in column H, I, J, ... (1-based column number, 1-based row)."""
    return 8 + index // ROWS_PER_COLUMN, index % ROWS_PER_COLUMN + 1


def save_workbook(path, formula_list, ragged=False):
    wb = Workbook()
    ws = wb.active
    ws.title = 'Main'
    for row in DATA:
        ws.append(row)
    for index, formula in enumerate(formula_list):
        column, row = place(index)
        ws.cell(row=row, column=column, value=formula)
    other = wb.create_sheet('Other')
    other.append([100, 25])
    other.append(['tail', None, 1])
    other.append([None, 'x'] if ragged else [None, 'x', None])
    other.append([-4])
    wb.save(path)


def workbook_part(out, tmp):
    from excel2pycl.src.ast_builder import AstBuilder
    from excel2pycl.src.excel import Excel
    from excel2pycl.src.lexer import Lexer
    from excel2pycl.src.translators.entry_point_token_translator import EntryPointTokenTranslator

    data_path = os.path.join(tmp, 'data.xlsx')
    save_workbook(data_path, [])
    excel = Excel.parse(data_path)
    accepted = []
    for formula in formulas():
        in_cell = Cell(0, 7, 0)
        context = Context()
        try:
            ast = AstBuilder.parse(Lexer.parse(formula, in_cell=in_cell), in_cell=in_cell)
            code = EntryPointTokenTranslator.translate(ast, excel, context)
            built = context.build_class()
            functions = built[built.rindex("return '#VALUE!'"):]
            out(f'ONE {formula!r} -> {code[:100]} | ctx {hashlib.sha256(functions.encode()).hexdigest()[:12]}')
            accepted.append(formula)
        except RecursionError:
            out(f'ONE {formula!r} raises RecursionError')
        except Exception as e:
            out(f'ONE {formula!r} raises {type(e).__name__}: {str(e)[:80]}')
    out(f'accepted {len(accepted)}')

    for ragged in (False, True):
        book_path = os.path.join(tmp, f'book{int(ragged)}.xlsx')
        class_path = os.path.join(tmp, f'book{int(ragged)}_class.py')
        save_workbook(book_path, accepted, ragged=ragged)
        text = Parser().set_excel_file_path(book_path).disable_safety_check().write_translation(class_path) \
            .get_translation()
        functions = text[text.rindex("return '#VALUE!'"):]
        out(f'BOOK ragged={ragged} cells sha256 {hashlib.sha256(functions.encode()).hexdigest()}')
        for set_number, overrides in enumerate(OVERRIDE_SETS if not ragged else OVERRIDE_SETS[:3]):
            executor = Executor().set_executed_class(class_file=class_path)
            if overrides:
                executor.set_cells([Cell(t, c, r, value=v) for t, c, r, v in overrides])
            for index, formula in enumerate(accepted):
                try:
                    column, row = place(index)
                    value = executor.get_cell(Cell('Main', get_column_letter(column), str(row))).value
                    out(f'VAL r{int(ragged)} set{set_number} {formula!r} = {show(value)}')
                except RecursionError:
                    out(f'VAL r{int(ragged)} set{set_number} {formula!r} raises RecursionError')
                except Exception as e:
                    out(f'VAL r{int(ragged)} set{set_number} {formula!r} raises {type(e).__name__}: {str(e)[:60]}')
            if set_number == 0:
                generated = executor.get_executed_class()
                direct_part_small(out, f'GEN{int(ragged)}', generated)
    return class_path


def direct_part_small(out, tag, runtime):
    for helper in HELPERS:
        call(out, f'{tag} {helper} mixed', getattr(runtime, helper),
             [1, 'a', True, None, '', runtime.EmptyCell(), 2.5, '#N/A', [3]])


def main():
    digest = hashlib.sha256()

    def out(line):
        digest.update(line.encode('utf-8', 'backslashreplace') + b'\n')
        print(line.encode('ascii', 'backslashreplace').decode())

    tmp = tempfile.mkdtemp(prefix='t51_r2_')
    try:
        # the class copy
        direct_part(out, 'CLS', Direct())
        # the template copy: a class generated for an empty context
        context = Context()
        template_path = os.path.join(tmp, 'empty_class.py')
        with open(template_path, 'w', encoding='utf-8') as f:
            f.write(context.build_class())
        direct_part(out, 'TPL', load_module(template_path).ExcelInPython())
        workbook_part(out, tmp)
    finally:
        shutil.rmtree(tmp, ignore_errors=True)

    print('DIGEST', digest.hexdigest())
    return 0


if __name__ == '__main__':
    sys.exit(main())
