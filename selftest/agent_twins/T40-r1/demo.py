"""Equivalence demonstration for r1 (DATE runtime helper `_date`, both runtime copies).

Run as: PYTHONPATH=<tree> /venv/bin/python demo.py
Prints a deterministic digest of every result (values, exception class names and the
emitted `_date` call sites); the output must be identical on the unchanged and the refactored tree.
"""
import datetime
import decimal
import fractions
import hashlib
import itertools
import os
import shutil
import sys
import tempfile

import openpyxl

from excel2pycl import Parser, Executor, Cell
from excel2pycl.src.object_loader import load_module
from excel2pycl.src.utilities.abstract_excel_in_python_class import AbstractExcelInPython


class HandWritten(AbstractExcelInPython):
    pass


def show(value):
    return '%s:%r' % (type(value).__name__, value)


def call(function, *args):
    try:
        return show(function(*args))
    except BaseException as error:  # the class name of whatever is raised is part of the digest
        return 'raises ' + type(error).__name__


LINES = []


def emit(line, echo=True):
    LINES.append(line)
    if echo:
        print(line)


FORMULAS = [
    '=DATE(2020,1,1)', '=DATE(2020,2,29)', '=DATE(2021,2,29)', '=DATE(1900,1,1)', '=DATE(1899,12,31)',
    '=DATE(0,1,1)', '=DATE(9999,12,31)', '=DATE(10000,1,1)', '=DATE(2020,0,0)', '=DATE(2020,13,32)',
    '=DATE(2020,25,120)', '=DATE(2020,-1,15)', '=DATE(2020,-24,-44)', '=DATE(2020,3,-1)', '=DATE(2020,3,0)',
    '=DATE(-1,1,1)', '=DATE(A1,B1,C1)', '=DATE(A2,B2,C2)', '=DATE(A3,B3,C3)', '=DATE(A4,B4,C4)',
    '=DATE(A5,B5,C5)', '=DATE(A6,B6,C6)', '=DATE("2020","2","3")', '=DATE("x",1,1)', '=DATE(2020,"y",1)',
    '=DATE(2020,1,"z")', '=YEAR(DATE(2023,14,1))', '=MONTH(DATE(2023,14,1))', '=DAY(DATE(2023,3,0))',
    '=DATE(2020,1,1)+1', '=DATE(1.5,1,1)', '=DATE(2020,1.5,1)', '=DATE(2020,1,1.5)', '=DATE(Z1,1,1)',
    '=DATE(2020,Z1,1)', '=DATE(2020,1,Z1)', '=DATE(9999,13,1)', '=DATE(9999,12,32)', '=DATE(0,0,0)',
]

DATA_ROWS = [
    (2024, 2, 29), ('2024', '12', '31'), ('20x4', 1, 1), (1899, 0, -5), (9999, 1, 400), (50, '7', 'bad'),
]


def build_workbook(path):
    book = openpyxl.Workbook()
    sheet = book.active
    sheet.title = 'Dates'
    for row_index, row in enumerate(DATA_ROWS, start=1):
        for column_index, value in enumerate(row, start=1):
            sheet.cell(row=row_index, column=column_index, value=value)
    for row_index, formula in enumerate(FORMULAS, start=1):
        sheet.cell(row=row_index, column=5, value=formula)
    book.save(path)


def direct_arguments(empty_cell):
    years = [-1, 0, 1, 1899, 1900, 1901, 1999, 2000, 2023, 2024, 9998, 9999, 10000, True, False,
             '2024', ' 2024 ', '+5', '-3', '1e3', '', 'abc', '12.0', 2024.0, 1899.5, float('nan'), float('inf'),
             None, empty_cell, decimal.Decimal(2024), fractions.Fraction(2024, 1), [2024], datetime.datetime(2024, 1, 1)]
    months = [-1200, -25, -12, -1, 0, 1, 2, 11, 12, 13, 24, 25, 1200, 96000, -96000, True, '3', ' 03', 'x', '', '2.0',
              2.0, 2.5, float('nan'), None, empty_cell, decimal.Decimal(3), fractions.Fraction(7, 2), 10 ** 30]
    days = [-100000, -366, -44, -1, 0, 1, 28, 29, 30, 31, 32, 59, 60, 61, 120, 365, 366, 367, 100000, 4000000,
            -4000000, False, '15', '1_0', 'q', '', 1.0, 1.25, float('nan'), float('inf'), None, empty_cell,
            decimal.Decimal(9), fractions.Fraction(3, 2), 10 ** 30]
    return years, months, days


def main():
    workdir = tempfile.mkdtemp(prefix='r1_demo_')
    try:
        xlsx = os.path.join(workdir, 'dates.xlsx')
        out_py = os.path.join(workdir, 'dates_class.py')
        build_workbook(xlsx)
        parser = Parser().set_excel_file_path(xlsx)
        translation = parser.get_translation()
        parser.write_translation(out_py)

        emit('== emitted call sites ==')
        for line in translation.split('\n'):
            if line.lstrip().startswith('return') and '_date(' in line:
                emit(line.strip())

        emit('== workbook through the Executor ==')
        executor = Executor().set_executed_class(class_file=out_py)
        for row_index, formula in enumerate(FORMULAS):
            emit('%-28s -> %s' % (formula, call(lambda: executor.get_cell(Cell(0, 4, row_index)).value)))

        emit('== overrides through the Executor ==')
        overrides = [(2031, 5, 17), ('1900', '1', '1'), ('', 1, 1), (10000, 1, 1), (-2, 1, 1), (2020, 14, 45),
                     (2020.0, 1, 1), (None, 1, 1), (2020, None, 1), (2020, 1, None), (1899, 12, 31), (2020, 'k', None)]
        for year, month, day in overrides:
            executor.set_cells([Cell('Dates', 'A', '1', value=year), Cell('Dates', 'B', '1', value=month),
                                Cell('Dates', 'C', '1', value=day)])
            emit('A1:C1=%r -> %s' % ((year, month, day),
                                     call(lambda: executor.get_cell(Cell('Dates', 'E', '17')).value)))

        emit('== direct calls, both runtime copies ==')
        generated = load_module(out_py).ExcelInPython()
        hand_written = HandWritten()
        for label, instance in (('base', hand_written), ('generated', generated)):
            years, months, days = direct_arguments(instance.EmptyCell())
            count = 0
            digest = hashlib.sha256()
            for year, month, day in itertools.product(years, months, days):
                line = '%s _date(%r, %r, %r) -> %s' % (label, year, month, day, call(instance._date, year, month, day))
                digest.update(line.encode() + b'\n')
                LINES.append(line)
                count += 1
            emit('%s: %d argument triples, sha256 %s' % (label, count, digest.hexdigest()))
            # boundary samples printed in full
            for year, month, day in [(2024, 2, 29), (2023, 2, 29), (0, 0, 0), (1899, 12, 31), (9999, 12, 31),
                                     (9999, 12, 32), (9999, 13, 1), (1, -11, 1), (1900, -22800, 1), (10000, 1, 1),
                                     ('x', None, None), (2020, 'x', None), (2020, 1, 'x'), (None, 'x', 1),
                                     (2020, 2.5, None), (2020, None, 2.5), (float('nan'), 1, 1), (2020, 1, float('inf'))]:
                emit('%s _date(%r, %r, %r) -> %s' % (label, year, month, day, call(instance._date, year, month, day)))

        emit('== agreement of the two copies ==')
        base_lines = [line[len('base '):] for line in LINES if line.startswith('base _date')]
        generated_lines = [line[len('generated '):] for line in LINES if line.startswith('generated _date')]
        emit('copies agree on every direct call: %s' % (base_lines == generated_lines))

        emit('== inverse functions over a calendar sweep ==')
        mismatches = 0
        sweep = hashlib.sha256()
        for year in (1900, 1999, 2000, 2023, 2024, 2100, 9990):
            for month in range(-14, 27):
                for day in range(-40, 75, 3):
                    value = hand_written._date(year, month, day)
                    total = (year * 12) + (month - 1)
                    expected = datetime.datetime(total // 12, total % 12 + 1, 1) + datetime.timedelta(days=day - 1)
                    if value != expected:
                        mismatches += 1
                    rebuilt = hand_written._date(hand_written._year(value), hand_written._month(value),
                                                 hand_written._day(value))
                    if rebuilt != value:
                        mismatches += 1
                    sweep.update(repr(value).encode())
        emit('sweep sha256 %s, results differing from the reference or not round-tripping (years before 1900 are re-based by DATE) %d' % (sweep.hexdigest(), mismatches))
    finally:
        shutil.rmtree(workdir, ignore_errors=True)

    total = hashlib.sha256('\n'.join(LINES).encode()).hexdigest()
    print('TOTAL %d lines, sha256 %s' % (len(LINES), total))
    return 0


if __name__ == '__main__':
    sys.exit(main())
