"""Equivalence demo for r3 (runtime helper _match: the three match_type branches merged over one
generator of comparable keys and one relation helper; both copies of the runtime class).

Calls _match / _xmatch directly on (a) a trivial subclass of AbstractExcelInPython and (b) an instance of
the class generated from the str.format template, over a large grid of lookup values, arrays and
match types (boundary and ill-typed ones included), and evaluates MATCH / XMATCH / INDEX(MATCH)
formulas of a workbook built here.  Prints every result or exception class and a digest.
"""
import datetime
import hashlib
import itertools
import os
import shutil
import sys
import tempfile

from openpyxl import Workbook

from excel2pycl import Parser, Executor, Cell
from excel2pycl.src.utilities.abstract_excel_in_python_class import AbstractExcelInPython

TMP = tempfile.mkdtemp(prefix='t43r3_')
OUT = []


def emit(*parts):
    OUT.append(' '.join(str(p) for p in parts))


def digest(text):
    return hashlib.sha256(text.encode('utf-8')).hexdigest()[:16]


def show(value):
    return f'{type(value).__name__}:{value!r}'


class Direct(AbstractExcelInPython):
    pass


def call(function, *args):
    try:
        return show(function(*args))
    except Exception as e:  # noqa
        return f'EXC {type(e).__name__}: {e}'


def arrays(instance):
    empty = instance.EmptyCell()
    d = datetime.datetime
    raw = {
        'asc-int': [1, 2, 3, 5, 8, 13],
        'asc-dup': [1, 2, 2, 2, 3, 3, 7],
        'desc-int': [13, 8, 5, 3, 2, 1],
        'desc-dup': [9, 7, 7, 5, 5, 1],
        'mixed-num': [1, 2.0, 2.5, 3, 4.0],
        'floats': [0.1, 0.5, 1.5, 2.5],
        'words': ['apple', 'Banana', 'cherry', 'Date'],
        'words-desc': ['pear', 'Peach', 'fig', 'Apple'],
        'words-dup': ['a', 'A', 'b', 'B', 'b'],
        'mixed': [1, 'one', 2, 'Two', empty, 3.0, True, None, 'three'],
        'with-empty': [empty, 1, empty, 2, 3, empty],
        'only-empty': [empty, empty],
        'bools': [False, True, True],
        'unsorted': [5, 1, 4, 2, 3],
        'dates': [d(2020, 1, 1), d(2021, 6, 1), d(2022, 12, 31)],
        'nones': [None, None],
        'single': [4],
        'nothing': [],
        'neg': [-5, -2, 0, 0.0, 2],
        'text-numbers': ['1', '2', '10'],
    }
    result = {name: [[value] for value in values] for name, values in raw.items()}
    result['two-columns'] = [[1, 'x'], [2, 'y'], [3, 'z']]
    result['ragged'] = [[1], [], [3]]
    result['ragged-late'] = [[1], [2], []]
    result['flat'] = [1, 2, 3]
    result['flat-text'] = ['abc', 'b']
    result['tuple-rows'] = ((1,), (2,), (3,))
    return result


def lookup_values(instance):
    d = datetime.datetime
    return [0, 1, 2, 2.0, 2.5, 3, 4, 6, 13, 14, 100, -1, -5, 0.0, 0.5, True, False, instance.EmptyCell(), None,
            'apple', 'APPLE', 'banana', 'b', 'B', 'zebra', '', 'one', 'two', '2', 'fig', 'Pear',
            d(2021, 6, 1), d(2021, 1, 1), d(2030, 1, 1), d(1999, 1, 1), float('inf'), float('nan'), [1], (1,)]


MATCH_TYPES = [0, 1, -1, 2, -2, 0.0, 0.5, -0.5, True, False, None, 'x', '1', float('nan'), [0]]


def direct_section(label, instance):
    table = arrays(instance)
    values = lookup_values(instance)
    for (name, array), value, match_type in itertools.product(table.items(), values, MATCH_TYPES):
        emit(label, 'match', name, show(value), show(match_type), '->', call(instance._match, value, array, match_type))
    for name, array in table.items():
        for value in values:
            emit(label, 'match-default', name, show(value), '->', call(instance._match, value, array))
    for (name, array), value, match_mode, search_mode in itertools.product(
            table.items(), [0, 2, 2.5, 7, 14, 'b', 'Banana', instance.EmptyCell(), True], [0, -1, 1, 2], [1, -1, 2, -2, 0, True]):
        emit(label, 'xmatch', name, show(value), match_mode, search_mode, '->',
             call(instance._xmatch, value, array, match_mode, search_mode))


KEYS = [3, 7, 7, 12, 20, 20, 31]
NAMES = ['ant', 'Bee', 'cat', 'Dog', 'eel', 'Fox', 'gnu']
DESC = [90, 70, 70, 40, 10, 5, 1]


def workbook_section():
    wb = Workbook()
    ws = wb.active
    ws.title = 'Keys'
    for key, name, desc in zip(KEYS, NAMES, DESC):
        ws.append([key, name, desc, name.upper()])
    ws.append([None, None, None, None])
    formulas = []
    for lookup in [0, 3, 7, 8, 12, 20, 25, 31, 40, 2.5, 7.0]:
        formulas += [f'=MATCH({lookup};A1:A7;0)', f'=MATCH({lookup};A1:A7;1)', f'=MATCH({lookup};A1:A7)',
                     f'=MATCH({lookup};A1:A8;1)', f'=MATCH({lookup};C1:C7;-1)', f'=XMATCH({lookup};A1:A7)',
                     f'=XMATCH({lookup};A1:A7;0;-1)', f'=XMATCH({lookup};A1:A7;1;1)', f'=XMATCH({lookup};A1:A7;-1;1)',
                     f'=XMATCH({lookup};A1:A7;0;2)', f'=XMATCH({lookup};A1:A7;-1;2)', f'=XMATCH({lookup};C1:C7;1;-2)',
                     f'=INDEX(B1:B7;MATCH({lookup};A1:A7;0))', f'=INDEX(B1:B7;MATCH({lookup};A1:A7;1))',
                     f'=IFERROR(INDEX(D1:D7;MATCH({lookup};A1:A7;0));"none")']
    for lookup in ['"cat"', '"CAT"', '"bee"', '"zzz"', '"a"', '"dog"', 'B3', 'A8', 'D2']:
        formulas += [f'=MATCH({lookup};B1:B7;0)', f'=MATCH({lookup};B1:B7;1)', f'=MATCH({lookup};D1:D7;0)',
                     f'=XMATCH({lookup};B1:B7)', f'=XMATCH({lookup};B1:B7;0;-1)',
                     f'=INDEX(A1:A7;MATCH({lookup};B1:B7;0))', f'=MATCH({lookup};A1:B1;0)']
    for row, formula in enumerate(formulas):
        ws.cell(row=row + 10, column=6, value=formula)
    path = os.path.join(TMP, 'match.xlsx')
    wb.save(path)
    code_path = os.path.join(TMP, 'match.py')
    text = Parser().set_excel_file_path(path).write_translation(code_path).get_translation()
    emit('workbook', len(formulas), 'formulas')
    executor = Executor().set_executed_class(class_file=code_path)
    for row, formula in enumerate(formulas):
        emit('formula', formula, '->', call(lambda r=row: executor.get_cell(Cell('Keys', 'F', str(r + 10))).value))
    # overridden keys (history): the same formulas after the keys were replaced
    executor.set_cells([Cell('Keys', 'A', '2', value=3), Cell('Keys', 'A', '5', value='text'), Cell('Keys', 'B', '3', value='BEE'),
                        Cell('Keys', 'A', '8', value=31)])
    for row, formula in enumerate(formulas):
        emit('override', formula, '->', call(lambda r=row: executor.get_cell(Cell('Keys', 'F', str(r + 10))).value))
    return executor.get_executed_class().__class__


try:
    generated_class = workbook_section()
    direct_section('class', Direct())
    direct_section('template', generated_class())
    template_lines = [line for line in OUT if line.startswith('template ')]
    class_lines = [line for line in OUT if line.startswith('class ')]
    emit('copies-agree', [line[len('template '):] for line in template_lines] == [line[len('class '):] for line in class_lines])
finally:
    shutil.rmtree(TMP, ignore_errors=True)

text = '\n'.join(OUT).replace(TMP, '<tmp>')
for line in OUT:
    if not line.startswith(('class match ', 'class xmatch ', 'template ')):
        print(line)
print('class-match-lines', len([line for line in OUT if line.startswith('class match ')]),
      digest('\n'.join(line for line in OUT if line.startswith('class match '))))
print('class-xmatch-lines', len([line for line in OUT if line.startswith('class xmatch ')]),
      digest('\n'.join(line for line in OUT if line.startswith('class xmatch '))))
print('template-lines', len(template_lines), digest('\n'.join(template_lines)))
print('DIGEST', digest(text), len(OUT))
sys.exit(0)
