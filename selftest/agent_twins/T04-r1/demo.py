"""Equivalence demo for r1: how LiteralToken spells an Excel literal as Python source.

Part 1 calls LiteralToken.get directly on many expressions (strings with quotes, backslashes,
Python expressions, numbers with fraction / exponent, TRUE/FALSE, non-literals).
Part 2 lexes whole formulas.
Part 3 pushes workbooks with hostile string literals through Parser + Executor (safety check on and off)
and prints the evaluated values, the exception class names and a digest of the generated module.
"""
import hashlib
import os
import sys
import tempfile

from openpyxl import Workbook

from excel2pycl import Cell, Parser, Executor
from excel2pycl.src.lexer import Lexer
from excel2pycl.src.tokens import LiteralToken

OUT = []


def emit(*parts):
    line = ' | '.join(str(p) for p in parts)
    OUT.append(line)
    print(line)


def guarded(fn):
    try:
        return 'ok', fn()
    except BaseException as e:  # noqa
        return 'exc', type(e).__name__


# ---------------------------------------------------------------- part 1: the token itself
TEXTS = [
    '', ' ', 'a', 'abc', "it's", "'", "''", "'''", '\\', '\\\\', '\\n', '\\x41', "\\'", 'a\\', "a'\\",
    '{0}', '{{}}', '%s', '#{x}', '\t', 'tab\there', '0', '00', '1', '1.5', '1e5', 'TRUE', 'FALSE', 'None',
    "__import__('os').system('echo pwned')", "' + __import__('os').getcwd() + '", "');import os;('",
    "'''", '""', 'x" + "y', 'юникод', ' ', '\x00', 'a\x7fb', "\\N{BULLET}", "eval('1+1')",
    'self._arguments', "f'{1+1}'", 'lambda: 0', 'a' * 300, "'" * 50, '\\' * 51, 'line1\nline2', 'cr\rlf', "nl\n' + 'x",
]
NUMBERS = ['0', '1', '007', '12', '1.0', '1.50', '0.1', '10.25', '1e3', '1e-3', '1.5e2', '1.5e-2', '2e0',
           '123456789012345678901234567890', '0.30000000000000004', '1e400', '1.e5', '1.', '.5', '1e', '1e+3', '1E3',
           '3.14abc', '12)', '12;13', '1e5e6', '٣', '1.٣', '१२']
WORDS = ['TRUE', 'FALSE', 'TRUE()', 'FALSE()', 'TRUE(', 'true', 'True', 'TRUEFALSE', 'FALSE()+1', 'TRUE())',
         'A1', 'SUM(1)', '(', '', ' 1', '-1', '+1', '&', '"', '"abc', 'abc"']

CELL = Cell(0, 0, 0)


def show_token(expression):
    status, res = guarded(lambda: LiteralToken.get(expression, CELL))
    if status == 'exc':
        emit('get', repr(expression), 'EXC', res)
        return
    token, rest = res
    if token is None:
        emit('get', repr(expression), 'no match', repr(rest))
    else:
        emit('get', repr(expression), type(token.value).__name__, repr(token.value), 'rest', repr(rest))
        if isinstance(token.value, str) and token.value[:1] in '\'"':
            # the printed source must evaluate back to the text between the quotes
            emit('   roundtrip', repr(eval(token.value, {'__builtins__': {}}, {})))


for t in TEXTS:
    show_token('"' + t + '"')
    show_token('"' + t + '";"tail"')
    show_token('"' + t + '"&A1')
for n in NUMBERS:
    show_token(n)
    show_token(n + '+1')
    show_token(n + ')')
for w in WORDS:
    show_token(w)

# ---------------------------------------------------------------- part 2: whole formulas through the lexer
FORMULAS = ['="a"', '=""', '="a"&"b"', '=1+2.5', '=1e3*2', '=TRUE', '=FALSE()', '=IF(TRUE,"y","n")',
            '=IF(A1="it\'s",1.50,2e-1)', '=LEFT("ab\\cd",2)', '="x" & 12 & TRUE()', '="a""b"', '="\\"',
            '=CONCATENATE("\'","\\","{0}")', '=SUM(1,2,3.0)', '=10%', '="10"%', '="__import__(\'os\')"']
for f in FORMULAS:
    status, res = guarded(lambda: Lexer.parse(f, in_cell=CELL))
    emit('lex', repr(f), status, res if status == 'exc' else [(type(t).__name__, t.value) for t in res])

# ---------------------------------------------------------------- part 3: through the generated class
tmp = tempfile.mkdtemp(prefix='r1demo')
counter = [0]


def run_workbook(label, rows, safety):
    counter[0] += 1
    xlsx = os.path.join(tmp, f'wb{counter[0]}.xlsx')
    out_py = os.path.join(tmp, f'wb{counter[0]}.py')
    wb = Workbook()
    ws = wb.active
    ws.title = 'S'
    for r, row in enumerate(rows, start=1):
        for c, v in enumerate(row, start=1):
            ws.cell(row=r, column=c, value=v)
    wb.save(xlsx)
    parser = Parser().set_excel_file_path(xlsx)
    if not safety:
        parser.disable_safety_check()
    status, res = guarded(lambda: parser.write_translation(out_py))
    if status == 'exc':
        emit('wb', label, 'safety' if safety else 'nosafety', 'translate EXC', res)
        return
    text = open(out_py, encoding='utf-8').read()
    emit('wb', label, 'safety' if safety else 'nosafety', 'module sha', hashlib.sha256(text.encode()).hexdigest()[:16])
    status, res = guarded(lambda: Executor().set_executed_class(class_file=out_py))
    if status == 'exc':
        emit('   load EXC', res)
        return
    executor = res
    for r, row in enumerate(rows):
        for c, _ in enumerate(row):
            status, res = guarded(lambda: executor.get_cell(Cell(0, c, r)).value)
            emit('   cell', r, c, status, type(res).__name__ if status == 'ok' else '', repr(res))


os.chdir(tmp)
marker = 'PWNED'  # relative: keeps the output independent of the temp dir name
HOSTILE = TEXTS + [f"__import__('pathlib').Path({marker!r}).touch()", f"' + str(open({marker!r}, 'w')) + '"]
for i, t in enumerate(HOSTILE):
    if any(ord(ch) < 32 and ch not in '\t\n' for ch in t):
        continue  # not storable in xlsx
    rows = [
        ['seed', '="' + t + '"', '="' + t + '"&A1', '=IF(A1="' + t + '",1,2.5)'],
        ['=CONCATENATE("' + t + '","|",TRUE)', '=LEFT("' + t + '",3)', '=1e2+1.25', '=FALSE()'],
    ]
    for safety in (True, False):
        run_workbook(f'text#{i}', rows, safety)

run_workbook('numbers', [['=1', '=1.0', '=1.50', '=1e3', '=1e-3', '=1.5e2', '=007', '=2e0', '=0.1+0.2',
                          '=123456789012345678901234567890', '=TRUE', '=FALSE', '=TRUE()', '=10%', '=1.5%',
                          '=1e400', '="5"+1']], True)
for bad in ['=1.e5', '=.5', '=1e5e6', '=12)', '=1e', '=1.', '="abc', '=abc"', '="a""b"', '=TRUE(', '="a', '=""""']:
    run_workbook('bad ' + repr(bad), [[bad]], False)

emit('marker file created', os.path.exists(marker))
emit('DIGEST', hashlib.sha256('\n'.join(OUT).encode('utf-8', 'backslashreplace')).hexdigest())
sys.exit(0)
