"""Equivalence demo for r2: how comparison (and neighbouring) operators are printed (C10).

Translates many expression shapes cell by cell (printing the generated code of every cell
or the exception class), calls the operator sub-translator directly on hand-made tokens,
then translates a whole workbook, prints a hash of the complete generated class and
evaluates every formula cell (also after overriding operands).
"""
import datetime
import hashlib
import os
import shutil
import sys
import tempfile
import warnings

warnings.simplefilter('ignore')

from openpyxl import Workbook

from excel2pycl import Parser, Executor, Cell
from excel2pycl.src.context import Context
from excel2pycl.src.excel import Excel
from excel2pycl.src.translators import CellTranslator
from excel2pycl.src.translators.operator_sub_token_translator import OperatorSubTokenTranslator
from excel2pycl.src import tokens as T

FORMULAS = [
    '=A1<B1', '=A1<=B1', '=A1=B1', '=A1<>B1', '=A1>=B1', '=A1>B1',
    '=A1 < B1', '=$A$1>$B$1', '=cmp!A1<cmp!B1',
    '=(A1+1)<B1', '=(A1<B1)', '=((A1<B1))', '=(A1)<(B1)', '=(A1<B1)=(B1>A1)', '=(A1+1)*2>=(B1-1)/2',
    '=-A1<B1', '=+A1<B1', '=A1<-B1', '=-A1<-B1', '=-(A1<B1)',
    '=A1+B1*2>C1-1', '=A1+1<B1+1', '=A1*2=B1*2', '=A1/2<>B1/2',
    '=A1&B1', '=A1&B1&C1', '=A1&"x"=B1', '=A1<>B1&"x"', '=A1&B1<C1&D1', '=(A1&B1)<(C1&D1)', '="a"&"b"="ab"',
    '=A1%', '=A1%+1', '=A1%<B1', '=50%', '=A1*10%', '=A1%%', '=A1%=B1%', '=A1%>1%', '=(A1%)<B1', '=A1<B1%',
    '=10%+A1%<B1', '=A1%&B1',
    '="a"<"b"', '="b"<"a"', '="a"="A"', '=""=A9', '=1=1', '=1<>2', '=1.5>1.25', '=1>=1.0', '=2<=1',
    '=TRUE()=A1', '=A9=0', '=A9=""', '=A9<1', '=A9<-1', '=A9<"x"', '=A9=FALSE()', '=A9<D1', '=A9>=D1', '=A9<=0',
    '=D1=E1', '=D1<E1', '=D1<=E1', '=D1>E1', '=D1<>E1', '=D1<F1', '=F1>D1', '=D1<DATE(2024,1,2)', '=TODAY()>D1',
    '=IF(A1>=B1,1,0)', '=IF(A1<B1,"lt",IF(A1=B1,"eq","gt"))', '=(A1>B1)+(A1<B1)', '=IF((A1<B1)=(B1>A1),"ok","bad")',
    '=AND(A1<B1,B1<C1)', '=OR(A1>B1,A1=B1)', '=SUM(A1:C1)>5', '=LEFT(G1,2)="he"', '=MID(G1,2,3)<>"ell"',
    '=SEARCH("l",G1)>=3', '=LEFT(G1,1)&RIGHT(G1,1)="ho"', '=ROUND(A1/3,2)<=0.33', '=MAX(A1:C1)=C1',
    '=A1<B1<C1', '=A1=B1=C1', '=A1<', '=<B1', '=A1<>', '=A1=>B1', '=A1=<B1', '=A1==B1', '=A1!=B1', '=A1<B1)',
    '=(A1<B1', '=A1 B1', '=%A1', '=&A1', '=A1&', '=A1<"x', '=<>',
]

VALUES = [1, 2, 3, datetime.date(2024, 1, 1), datetime.datetime(2024, 1, 1), datetime.datetime(2024, 1, 1, 6, 30), 'hello']


def outcome(function, *args):
    try:
        return 'value ' + repr(function(*args))
    except BaseException as error:  # noqa
        return 'raised ' + error.__class__.__name__ + ': ' + str(error)


def build_workbook(path, formulas):
    wb = Workbook()
    ws = wb.active
    ws.title = 'cmp'
    for column, value in enumerate(VALUES, start=1):
        ws.cell(row=1, column=column, value=value)
    # row 9 stays blank, formulas start in row 11, column A
    for offset, formula in enumerate(formulas):
        ws.cell(row=11 + offset, column=1, value=formula)
    wb.save(path)


def translate_one(xlsx, row):
    excel = Excel.parse(xlsx)
    context = Context()
    cell = Cell(0, 0, row)
    reference = CellTranslator.translate(cell, excel, context)
    return (reference, sorted(context._cell_translations.items()),
            sorted((k, list(v)) for k, v in context._sub_cell_translations.items()))


def direct_operator_tokens(lines):
    cell = Cell(0, 0, 0)

    class EqSubclass(T.EqOperatorToken):
        pass

    samples = []
    for name in ['EqOperatorToken', 'NotEqOperatorToken', 'GtOperatorToken', 'GtOrEqualOperatorToken',
                 'LtOperatorToken', 'LtOrEqualOperatorToken', 'PlusOperatorToken', 'MinusOperatorToken',
                 'MultiplicationOperatorToken', 'DivOperatorToken', 'AmpersandToken', 'PercentToken',
                 'SeparatorToken', 'BracketStartToken']:
        token_class = getattr(T, name)
        for spelling in ['=', '<>', '>=', '<', '+', '&', '%', 'zz']:
            samples.append((name, token_class((spelling,), cell)))
        samples.append((name, token_class((), cell)))
        samples.append((name, token_class('<=', cell)))
        samples.append((name, token_class(None, cell)))
        lexed, rest = token_class.get(token_class.regexp.replace('\\', '') + 'A1', cell)
        samples.append((name + ' lexed ' + repr(rest), lexed))
    samples.append(('EqSubclass', EqSubclass(('=',), cell)))
    samples.append(('EqSubclass', EqSubclass(('zz',), cell)))
    for name, token in samples:
        lines.append(f'operator-token {name} {getattr(token, "value", None)!r} -> '
                     f'{outcome(OperatorSubTokenTranslator.translate, token, None, None)}')


def main():
    lines = []
    tmp = tempfile.mkdtemp(prefix='t24_r2_')
    try:
        xlsx = os.path.join(tmp, 'all.xlsx')
        build_workbook(xlsx, FORMULAS)
        good = []
        for offset, formula in enumerate(FORMULAS):
            result = outcome(translate_one, xlsx, 10 + offset)
            lines.append(f'translate {formula!r} -> {result}')
            if result.startswith('value '):
                good.append(formula)

        direct_operator_tokens(lines)

        xlsx_good = os.path.join(tmp, 'good.xlsx')
        out_py = os.path.join(tmp, 'good_translated.py')
        build_workbook(xlsx_good, good)
        parser = Parser().set_excel_file_path(xlsx_good)
        text = parser.get_translation()
        lines.append('class-text sha256 ' + hashlib.sha256(text.encode('utf-8')).hexdigest())
        for text_line in text.split('{functions}')[0].splitlines():
            if 'self._compare(' in text_line and 'def _compare' not in text_line:
                lines.append('class-line ' + text_line.strip())
        parser.write_translation(out_py)
        executor = Executor().set_executed_class(class_file=out_py)

        def evaluate(tag):
            for offset, formula in enumerate(good):
                if 'TODAY' in formula:
                    continue
                lines.append(f'{tag} {formula!r} -> '
                             f'{outcome(lambda: executor.get_cell(Cell(0, 0, 10 + offset)).value)}')

        evaluate('evaluate')
        override_sets = [
            [2, 1, 0, datetime.datetime(2024, 1, 2), datetime.date(2024, 1, 1), datetime.datetime(2023, 1, 1), 'HELLO'],
            [1.5, 1.5, 1.5, 'x', 'x', 'y', ''],
            ['b', 'a', 'B', 5, '5', 5.0, 'hello world'],
            [0, '', False, None, 0, '', 'he'],
            [-1, -1.5, '-1', datetime.datetime(2024, 1, 1), datetime.datetime(2024, 1, 1), datetime.date(2024, 1, 1), 'l'],
        ]
        for number, values in enumerate(override_sets):
            executor.set_cells([Cell(0, column, 0, value=value) for column, value in enumerate(values)])
            evaluate(f'override{number}')
    finally:
        shutil.rmtree(tmp, ignore_errors=True)

    for line in lines:
        print(line)
    print('lines', len(lines))
    print('sha256', hashlib.sha256('\n'.join(lines).encode('utf-8')).hexdigest())


if __name__ == '__main__':
    main()
    sys.exit(0)
