"""Equivalence demonstration for the override machinery (property C04): Executor.set_cells ->
set_arguments -> _cell_preprocessor, in the generated class and in AbstractExcelInPython.

Builds its own workbooks in a temporary directory, replays many set_cells histories (including
failing ones), reads every cell after every step, compares with a fresh translation of the
correspondingly edited workbook, drives the runtime class directly, and prints a deterministic
digest: values (with type names), exception class names and messages, sheet sizes, and the
per-cell functions of the generated text.

Run:  PYTHONPATH=<tree> /venv/bin/python demo.py
"""
import copy
import datetime
import hashlib
import os
import sys
import tempfile

from openpyxl import Workbook

from excel2pycl import Parser, Executor, Cell, load_module
from excel2pycl.src.utilities.abstract_excel_in_python_class import AbstractExcelInPython

OUT = []


def emit(*parts):
    OUT.append(' '.join(str(p) for p in parts))


def sha(text):
    return hashlib.sha256(text.encode('utf-8')).hexdigest()[:16]


def show(value):
    if isinstance(value, list):
        return '[' + ', '.join(show(v) for v in value) + ']'
    return f'{type(value).__name__}:{value!r}'


def functions_part(text):
    marker = "        return '#VALUE!'\n\n"
    return text[text.rindex(marker) + len(marker):]


def build(path, sheets):
    wb = Workbook()
    wb.remove(wb.active)
    for title, rows in sheets:
        ws = wb.create_sheet(title)
        for r, row in enumerate(rows, start=1):
            for c, value in enumerate(row, start=1):
                if value is not None:
                    ws.cell(row=r, column=c, value=value)
    wb.save(path)
    wb.close()


def attempt(label, fn):
    try:
        return fn()
    except RecursionError:
        emit(label, '-> RecursionError')
    except Exception as e:  # noqa
        emit(label, '->', type(e).__name__, '|', str(e)[:300])
    return None


def value_of(ex, t, c, r):
    try:
        return show(ex.get_cell(Cell(t, c, r)).value)
    except RecursionError:
        return 'EXC RecursionError'
    except Exception as e:  # noqa
        return f'EXC {type(e).__name__}: {str(e)[:100]}'


SHEETS = [
    ('Main', [
        [10, 20, '=A1+B1', '=C1*2', '=SUM(A1:D1)'],
        ['=A1/B2', 0, '=A2+1', '=IFERROR(A2, "err")', '=SUM(A1:A4)'],
        ['text', '=A3&"!"', None, '=C3+1', '=IF(C3="", "blank", "filled")'],
        ['=Other!A1+1', '=SUM(Other!A1:A3)', '=VLOOKUP(2, Other!A1:B3, 2, FALSE())', '=H9+1', '=COUNTBLANK(A3:E3)'],
        ['=D4*2', '=SUM(Main!A:A)', '=LEFT(A3, 2)', '=MAX(A1:E1)', '=B5+D5'],
    ]),
    ('Other', [
        [1, 'one', '=Main!C1'],
        [2, 'two', '=C1+A2'],
        [3, 'three', '=SUMIF(A1:A3, ">1")'],
    ]),
]
GRID = [(t, c, r) for t in range(2) for r in range(10) for c in range(9)]

# each history is a list of steps; a step is a list of (sheet, column, row, value) given to one set_cells call
D = datetime.datetime
HISTORIES = {
    'constants': [[(0, 0, 0, 11)], [(0, 1, 0, 22)], [(0, 0, 0, 12)], [(0, 0, 0, 10), (0, 1, 0, 20)]],
    'last_write_wins_one_call': [[(0, 0, 0, 1), (0, 0, 0, 2), (0, 0, 0, 3)], [(0, 0, 0, 4), (0, 1, 0, 5), (0, 0, 0, 6)]],
    'formula_cell': [[(0, 2, 0, 100)], [(0, 2, 0, 200)], [(0, 0, 0, 1)], [(0, 3, 0, -1), (0, 4, 0, 0)]],
    'error_formula': [[(0, 0, 1, 5)], [(0, 1, 1, 2)], [(0, 0, 1, 'x')], [(0, 0, 1, 0.5)]],
    'fix_divisor': [[(0, 1, 1, 4)], [(0, 1, 1, 0)], [(0, 1, 1, 5)]],
    'blank_cell': [[(0, 2, 2, 7)], [(0, 2, 2, '')], [(0, 2, 2, 0)], [(0, 2, 2, 'z')], [(0, 2, 2, None)]],
    'beyond_range': [[(0, 7, 8, 41)], [(0, 8, 9, 1)], [(1, 5, 5, 'far')], [(0, 7, 8, 1), (0, 30, 40, 2)]],
    'cross_sheet': [[(1, 0, 0, 100)], [(1, 1, 1, 'deux')], [(1, 2, 0, 5)], [(0, 2, 0, 6)], [(1, 0, 1, 2.5)]],
    'types': [[(0, 0, 0, True)], [(0, 0, 0, '10')], [(0, 0, 0, 1.25)], [(0, 0, 2, D(2024, 1, 31))], [(0, 0, 0, -0.0)],
              [(0, 0, 0, [1, 2])], [(0, 0, 0, '=B1')], [(0, 0, 0, '#N/A')]],
    'empty_calls': [[], [(0, 0, 0, 3)], [], []],
    'whole_row': [[(0, c, 0, c) for c in range(5)], [(0, c, 0, 10 * c) for c in range(4, -1, -1)]],
    'whole_column_dep': [[(0, 0, 5, 1000)], [(0, 0, 3, 1)], [(0, 0, 9, 1)]],
    'many': [[(t, c, r, t * 100 + c * 10 + r) for t in range(2) for r in range(4) for c in range(3)],
             [(0, 0, 0, 'again')]],
}


def edited_sheets(overrides):
    sheets = copy.deepcopy(SHEETS)
    for (t, c, r), v in overrides.items():
        rows = sheets[t][1]
        while len(rows) <= r:
            rows.append([])
        while len(rows[r]) <= c:
            rows[r].append(None)
        rows[r][c] = v
    return sheets


def section_histories(tmp, py, class_label, make_executor):
    emit(f'== histories on {class_label} ==')
    for name, steps in HISTORIES.items():
        ex = make_executor()
        overrides = {}
        for i, step in enumerate(steps):
            label = f'{class_label} {name} step {i}'
            cells = [Cell(t, c, r, value=v) for (t, c, r, v) in step]
            ret = attempt(label + ' set_cells', lambda: ex.set_cells(cells))
            emit(label, 'returned self', ret is ex)
            for (t, c, r, v) in step:
                overrides[(t, c, r)] = v
            values = {k: value_of(ex, *k) for k in GRID}
            for k in GRID:
                emit(label, k, values[k])
            emit(label, 'sheets_size', ex._executed_instance.get_sheets_size())
            for sheet in (0, 'Other'):
                rows = attempt(label + f' get_sheet {sheet}', lambda: ex.get_sheet(sheet))
                if rows is not None:
                    emit(label, 'get_sheet', sheet, len(rows), [len(row) for row in rows],
                         sha(repr([[show(c.value) for c in row] for row in rows])))
            # fresh translation of the edited workbook (only for overrides a workbook can hold)
            if class_label == 'generated' and all(v is None or isinstance(v, (int, float, str, bool, D)) for v in overrides.values()) \
                    and not any(isinstance(v, str) and v.startswith('=') for v in overrides.values()):
                xlsx = os.path.join(tmp, 'edited.xlsx')
                epy = os.path.join(tmp, f'edited_{class_label}_{name}_{i}.py')
                build(xlsx, edited_sheets(overrides))
                ok = attempt(label + ' fresh translation', lambda: Parser().set_excel_file_path(xlsx).write_translation(epy))
                if ok is not None:
                    fresh = Executor().set_executed_class(class_file=epy)
                    differing = [(k, values[k], value_of(fresh, *k)) for k in GRID if values[k] != value_of(fresh, *k)]
                    emit(label, 'differs from fresh translation at', differing)


def section_addressing_and_failures(make_executor, class_label):
    emit(f'== addressing forms and failing calls on {class_label} ==')
    ex = make_executor()

    def snapshot(label):
        emit(label, 'A1..E1', [value_of(ex, 0, c, 0) for c in range(5)], 'Other', [value_of(ex, 1, c, 0) for c in range(3)],
             'size', ex._executed_instance.get_sheets_size())

    snapshot('initial')
    attempt('str address', lambda: ex.set_cells([Cell('Main', 'A', '1', value=1), Cell('Other', 'A', '1', value=2)]))
    snapshot('after str address')
    attempt('mixed address', lambda: ex.set_cells([Cell(0, 'B', 0, value=3), Cell('Main', 1, '1', value=4)]))
    snapshot('after mixed address')
    attempt('unknown title in the middle', lambda: ex.set_cells(
        [Cell(0, 0, 0, value=50), Cell(0, 20, 20, value=51), Cell('Nope', 'A', '1', value=52), Cell(0, 1, 0, value=53)]))
    snapshot('after unknown title')
    attempt('sheet index out of range', lambda: ex.set_cells([Cell(0, 2, 0, value=60), Cell(9, 0, 0, value=61)]))
    snapshot('after sheet index out of range')
    attempt('row None', lambda: ex.set_cells([Cell(0, 3, 0, value=70), Cell('Main', 'A', value=71)]))
    snapshot('after row None')
    attempt('row None and bad sheet', lambda: ex.set_cells([Cell(9, 0, None, value=72)]))
    attempt('row empty string', lambda: ex.set_cells([Cell('Main', 'A', '', value=73)]))
    attempt('negative sheet', lambda: ex.set_cells([Cell(-1, 0, 0, value=74)]))
    snapshot('after negative sheet')
    emit('negative sheet cell', attempt('get', lambda: show(ex.get_cell(Cell(-1, 0, 0)).value)))
    attempt('bad column string', lambda: ex.set_cells([Cell('Main', '1', '1', value=75)]))
    attempt('not a list', lambda: ex.set_cells(None))
    attempt('not cells', lambda: ex.set_cells([(0, 0, 0)]))
    attempt('tuple of cells', lambda: ex.set_cells((Cell(0, 0, 0, value=80), Cell(0, 0, 0, value=81))))
    snapshot('after tuple')
    attempt('generator of cells', lambda: ex.set_cells(Cell(0, 0, 0, value=v) for v in (90, 91)))
    snapshot('after generator')
    attempt('empty', lambda: ex.set_cells([]))
    snapshot('after empty')

    # the executor keeps the Cell objects it was given: later edits of those objects are seen at the next flush
    shared = Cell(0, 0, 0, value=1)
    ex.set_cells([shared])
    shared.value = 2
    snapshot('shared cell edited before first read')
    shared.value = 3
    snapshot('shared cell edited after a read (no flush)')
    ex.set_cells([Cell(0, 1, 0, value=0)])
    snapshot('shared cell edited, then another set_cells')
    got = ex.get_cell(shared)
    emit('get_cell returns the same object', got is shared, show(shared.value))
    ex.set_cells([Cell(0, 1, 0, value=1)])
    snapshot('after reading into the shared cell and another set_cells')

    # two executors over the same class file do not share overrides
    ex1, ex2 = make_executor(), make_executor()
    ex1.set_cells([Cell(0, 0, 0, value=111)])
    emit('independent executors', value_of(ex1, 0, 2, 0), value_of(ex2, 0, 2, 0))
    ex2.set_cells([Cell(0, 0, 0, value=222)])
    emit('independent executors', value_of(ex1, 0, 2, 0), value_of(ex2, 0, 2, 0))
    # get_cells and get_cell interleaved with set_cells
    ex = make_executor()
    seq = []
    for v in range(6):
        ex.set_cells([Cell(0, v % 2, 0, value=v)])
        seq.append([show(c.value) for c in ex.get_cells([Cell(0, 2, 0), Cell('Main', 'E', '1'), Cell('Other', 'C', '2')])])
    emit('interleaved', seq)


class Hand(AbstractExcelInPython):
    """A hand-written class on top of the abstract runtime copy."""

    def __init__(self, arguments=None):
        super().__init__(arguments)
        self._titles = {'Main': 0, 'Other': 1}
        self._sheets_size = [{'last_column': 5, 'last_row': 5}, {'last_column': 3, 'last_row': 3}]

    def _0_0_0(self):
        return 10

    def _0_1_0(self):
        return 20

    def _0_2_0(self):
        return self._cell_preprocessor('_0_0_0') + self._cell_preprocessor('_0_1_0')

    def _0_3_0(self):
        return self._cell_preprocessor('_0_2_0') * 2

    def _0_4_0(self):
        return self._sum([self._cell_preprocessor(f'_0_{c}_0') for c in range(4)])

    def _0_0_1(self):
        return self._cell_preprocessor('_0_0_0') / self._cell_preprocessor('_0_1_1')

    def _0_1_1(self):
        return 0

    def _0_2_2(self):
        return self.EmptyCell()

    def _1_2_0(self):
        return self._cell_preprocessor('_0_2_0')

    def _1_2_1(self):
        return self._cell_preprocessor('_1_2_0') + self._cell_preprocessor('_1_0_1')

    def _1_0_1(self):
        return 2

    _0_7_7 = 5          # a class attribute that is not callable
    _0_6_6 = 0          # ... and a falsy one


def direct_runtime(label, cls):
    emit(f'== direct runtime calls on {label} ==')
    uids = ['_0_0_0', '_0_1_0', '_0_2_0', '_0_3_0', '_0_4_0', '_0_0_1', '_0_1_1', '_0_2_2', '_1_2_0', '_1_2_1', '_9_9_9',
            '', '_arguments', '_titles', '_sheets_size', '_cell_preprocessor', 'exec_function_in', '_today', 'EmptyCell',
            '__init__', '_0_7_7', '_0_6_6', '__doc__', '__module__']

    def dump(inst, tag):
        for uid in uids:
            for fn_name in ('exec_function_in', '_cell_preprocessor'):
                try:
                    v = getattr(inst, fn_name)(uid)
                    if isinstance(v, datetime.datetime) and uid == '_today':
                        v = 'today'
                    res = show(v) if not callable(v) and not isinstance(v, dict) else type(v).__name__ + ':' + repr(v)[:60]
                    if 'object at 0x' in res or 'function ' in res:
                        res = type(v).__name__
                except RecursionError:
                    res = 'EXC RecursionError'
                except Exception as e:  # noqa
                    res = f'EXC {type(e).__name__}: {str(e)[:90]}'
                emit(label, tag, fn_name, repr(uid), res)

    inst = cls()
    dump(inst, 'fresh')
    emit(label, 'set_arguments returns', inst.set_arguments([{'uid': '_0_0_0', 'value': 1}]))
    dump(inst, 'A1=1')
    inst.set_arguments([{'uid': '_0_0_0', 'value': 2}, {'uid': '_0_0_0', 'value': 3}, {'uid': '_0_1_1', 'value': 4}])
    dump(inst, 'A1=3 (last wins), B2=4')
    inst.set_arguments([])
    dump(inst, 'after empty list')
    inst.set_arguments([{'uid': '_0_2_0', 'value': None}, {'uid': '_9_9_9', 'value': 'beyond'}, {'uid': '_0_2_2', 'value': ''},
                        {'uid': '', 'value': 'empty uid'}, {'uid': '_0_7_7', 'value': 'was not callable'},
                        {'uid': '_0_0_1', 'value': 0}, {'uid': '_0_6_6', 'value': False}])
    dump(inst, 'None / beyond / blank / odd uids')
    # failing calls leave the overrides as they were
    attempt(label + ' item without uid', lambda: inst.set_arguments([{'uid': '_0_0_0', 'value': 77}, {'value': 1}]))
    attempt(label + ' item without value', lambda: inst.set_arguments([{'uid': '_0_1_0', 'value': 78}, {'uid': '_0_0_0'}]))
    attempt(label + ' unhashable uid', lambda: inst.set_arguments([{'uid': '_0_1_0', 'value': 79}, {'uid': [], 'value': 1}]))
    attempt(label + ' not iterable', lambda: inst.set_arguments(None))
    attempt(label + ' not dicts', lambda: inst.set_arguments([1]))
    dump(inst, 'after failing calls')
    emit(label, 'arguments', sorted((repr(k), show(v)) for k, v in inst._arguments.items()), 'order', list(inst._arguments))
    inst.set_arguments(({'uid': u, 'value': i} for i, u in enumerate(['_0_1_0', '_0_0_0', '_0_1_0'])))
    dump(inst, 'generator argument')
    emit(label, 'order', list(inst._arguments))
    for bad in ([], {}, None, 1, ('_0_0_0',), b'_0_0_0'):
        for fn_name in ('exec_function_in', '_cell_preprocessor'):
            attempt_label = f'{label} {fn_name} uid {bad!r}'
            v = attempt(attempt_label, lambda: getattr(inst, fn_name)(bad))
            if v is not None:
                emit(attempt_label, show(v))
    inst.set_arguments([{'uid': None, 'value': 'none uid'}, {'uid': 1, 'value': 'int uid'}, {'uid': ('_0_0_0',), 'value': 'tuple uid'}])
    for bad in (None, 1, ('_0_0_0',), True):
        emit(label, 'odd uid', repr(bad), attempt(f'{label} odd uid {bad!r}', lambda: show(inst._cell_preprocessor(bad))))

    # overrides given to the constructor, instance attributes as cell methods
    inst = cls([{'uid': '_0_0_0', 'value': 5}, {'uid': '_0_0_0', 'value': 6}])
    dump(inst, 'constructor arguments')
    inst = cls(arguments=[])
    inst.__dict__['_7_7_7'] = lambda self: 'instance lambda'
    inst.__dict__['_0_0_0'] = lambda self: 1000
    inst.__dict__['_0_1_0'] = None
    emit(label, 'instance attrs', [attempt('ia', lambda: show(inst.exec_function_in(u))) for u in ('_7_7_7', '_0_0_0', '_0_1_0', '_0_2_0')])
    inst.set_arguments([{'uid': '_7_7_7', 'value': 'overridden'}, {'uid': '_0_1_0', 'value': 1}])
    emit(label, 'instance attrs overridden', [attempt('ia', lambda: show(inst.exec_function_in(u))) for u in ('_7_7_7', '_0_0_0', '_0_1_0', '_0_2_0')])
    # the mapping is replaced, never mutated in place: a reference taken earlier keeps its content
    inst = cls()
    before = inst._arguments
    inst.set_arguments([{'uid': '_0_0_0', 'value': 1}])
    middle = inst._arguments
    inst.set_arguments([{'uid': '_0_0_0', 'value': 2}, {'uid': '_0_1_0', 'value': 3}])
    emit(label, 'earlier references', before, middle, inst._arguments, before is middle, middle is inst._arguments,
         type(inst._arguments).__name__)
    # a subclass overriding a cell method / with an extra one
    sub = type('Sub', (cls,), {'_0_0_0': lambda self: 'sub', '_5_5_5': lambda self: 'extra'})
    s = sub()
    emit(label, 'subclass', [attempt('sc', lambda: show(s.exec_function_in(u))) for u in ('_0_0_0', '_5_5_5', '_0_1_0', '_0_2_0')])
    s.set_arguments([{'uid': '_0_0_0', 'value': 1}])
    emit(label, 'subclass overridden', [attempt('sc', lambda: show(s.exec_function_in(u))) for u in ('_0_0_0', '_5_5_5', '_0_1_0', '_0_2_0')])


def section_depth(tmp):
    """Longest chain whose head can be evaluated under a fixed recursion limit, with and without an override in
    the middle: a refactoring that adds a call level to _cell_preprocessor would move these boundaries."""
    emit('== evaluation depth boundary ==')
    from openpyxl.utils import get_column_letter
    n = 120
    xlsx = os.path.join(tmp, 'chain.xlsx')
    py = os.path.join(tmp, 'chain.py')
    build(xlsx, [('S', [[f'={get_column_letter(i + 2)}1' for i in range(n)] + [7]])])
    Parser().set_excel_file_path(xlsx).write_translation(py)

    def outcome(ex, column):
        old = sys.getrecursionlimit()
        sys.setrecursionlimit(150)
        try:
            return show(ex.get_cell(Cell(0, column, 0)).value)
        except RecursionError:
            return 'RecursionError'
        finally:
            sys.setrecursionlimit(old)

    ex = Executor().set_executed_class(class_file=py)
    emit('no override', [(c, outcome(ex, c)) for c in range(n, -1, -1)])
    ex.set_cells([Cell(0, 100, 0, value=1)])
    emit('override in the middle', [(c, outcome(ex, c)) for c in range(n, -1, -1)])

    chain = type('Chain', (AbstractExcelInPython,), {
        **{f'_0_{i}_0': (lambda i: lambda self: self._cell_preprocessor(f'_0_{i + 1}_0'))(i) for i in range(n)},
        f'_0_{n}_0': lambda self: 7})
    inst = chain()

    def outcome2(column):
        old = sys.getrecursionlimit()
        sys.setrecursionlimit(150)
        try:
            return show(inst.exec_function_in(f'_0_{column}_0'))
        except RecursionError:
            return 'RecursionError'
        finally:
            sys.setrecursionlimit(old)

    emit('abstract no override', [(c, outcome2(c)) for c in range(n, -1, -1)])
    inst.set_arguments([{'uid': '_0_100_0', 'value': 1}])
    emit('abstract override in the middle', [(c, outcome2(c)) for c in range(n, -1, -1)])


def main():
    sys.setrecursionlimit(3000)
    with tempfile.TemporaryDirectory() as tmp:
        xlsx = os.path.join(tmp, 'main.xlsx')
        py = os.path.join(tmp, 'main.py')
        build(xlsx, SHEETS)
        text = Parser().set_excel_file_path(xlsx).get_translation()
        with open(py, 'w', encoding='utf-8') as f:
            f.write(text)
        emit('functions sha', sha(functions_part(text)))
        emit(functions_part(text))

        def from_file():
            return Executor().set_executed_class(class_file=py)

        def from_hand_class():
            return Executor().set_executed_class(class_object=Hand)

        section_histories(tmp, py, 'generated', from_file)
        section_histories(tmp, py, 'hand', from_hand_class)
        section_addressing_and_failures(from_file, 'generated')
        section_addressing_and_failures(from_hand_class, 'hand')
        generated = load_module(py).ExcelInPython
        direct_runtime('generated', generated)
        direct_runtime('hand', Hand)
        section_depth(tmp)
    out = '\n'.join(OUT) + '\n'
    sys.stdout.write(out)
    sys.stdout.write('DIGEST ' + hashlib.sha256(out.encode('utf-8')).hexdigest() + '\n')


if __name__ == '__main__':
    main()
