"""Equivalence demo for r2 (C15): runtime helpers _date and _network_days, both copies.

Run as: PYTHONPATH=<tree> /venv/bin/python demo.py
Prints a deterministic digest; must be identical on the unchanged and on the refactored tree.
"""
import datetime
import hashlib
import itertools
import os
import shutil
import sys
import tempfile

from openpyxl import Workbook

from excel2pycl import Parser, Executor, Cell
from excel2pycl.src.utilities.abstract_excel_in_python_class import AbstractExcelInPython

LINES = []


def out(*parts):
    LINES.append(' '.join(str(p) for p in parts))


def show(value):
    return f'{type(value).__name__}:{value!r}'


def call(function, *args):
    try:
        return show(function(*args))
    except BaseException as error:  # noqa
        return f'!{type(error).__name__}:{error}'


class Direct(AbstractExcelInPython):
    pass


class Odd:
    """Not a number, not a string, not a date."""

    def __repr__(self):
        return 'Odd()'


class Texty(str):
    pass


class Stamp(datetime.datetime):
    pass


def date_inputs(empty):
    years = [-1, 0, 1, 99, 1899, 1900, 1901, 1999, 2000, 2023, 2024, 2100, 9998, 9999, 10000, True, 2024.0, 2024.5,
             '2024', ' 2024 ', '1_9', '0', '-3', '12.5', 'abc', '', Texty('1900'), None, empty, Odd(), float('nan')]
    months = [-25, -12, -1, 0, 1, 2, 12, 13, 14, 25, 1200, 100000, True, 1.0, 2.5, '2', ' 14', '-1', 'x', '', None,
              empty, Odd()]
    days = [-366, -31, -1, 0, 1, 28, 29, 30, 31, 32, 60, 366, 3000000, 4000000, False, 1.0, 1.5, '29', '0', '+5',
            'y', '', None, empty, Odd()]
    return years, months, days


def holiday_inputs(empty):
    d = datetime.datetime
    return [
        None, [], [[]], [None], [[], None, []], 0, '', (), empty,
        [[d(2024, 1, 1), d(2024, 1, 2)], [d(2024, 1, 6), 'x'], [None, 5, empty, d(2024, 12, 25, 13, 30)]],
        [[d(2023, 5, 1), d(2023, 5, 8)], [40, 'ewewwewe']],
        [[d(2024, 2, 29)], [d(2024, 2, 29)], [d(2024, 3, 1)]],
        [[Stamp(2024, 1, 3)], None, [datetime.date(2024, 1, 4)]],
        ([d(2024, 1, 8)], (d(2024, 1, 9), d(2024, 1, 10))),
        [[d(9999, 12, 31)], [d(1, 1, 1)]],
        [5], 5, [[d(2024, 1, 1)], 7], 'ab', [['2024-01-01']],
        (row for row in [[d(2024, 1, 1)], [d(2024, 1, 2)]]),
    ]


def date_pairs():
    d = datetime.datetime
    points = [d(2024, 1, 1), d(2024, 1, 5), d(2024, 1, 6), d(2024, 1, 7), d(2024, 1, 8), d(2024, 2, 29), d(2024, 3, 1),
              d(2023, 12, 30, 23, 59), d(2023, 12, 31, 0, 1), d(2024, 12, 31), d(2025, 1, 1), d(2023, 4, 1),
              d(2023, 5, 31), d(1900, 1, 1), d(1, 1, 1), d(1, 1, 3), d(9999, 12, 24), d(9999, 12, 30), d(9999, 12, 31),
              Stamp(2024, 1, 10, 12)]
    others = [datetime.date(2024, 1, 1), 45000, '2024-01-01', None, True, Odd()]
    return points, others


def exercise(label, instance):
    empty = instance.EmptyCell()
    digest = hashlib.sha256()
    count = 0
    years, months, days = date_inputs(empty)
    for year, month, day in itertools.product(years, months, days):
        result = call(instance._date, year, month, day)
        digest.update(f'{year!r}|{month!r}|{day!r}|{result}\n'.encode())
        count += 1
    out(label, '_date grid', count, digest.hexdigest())

    samples = [(2024, 1, 1), (2024, 2, 30), (2024, 0, 0), (2024, -11, -30), (2023, 14, 31), (24, 13, 32), (1899, 12, 31),
               (1900, 1, 0), (9999, 12, 31), (9999, 12, 32), (9999, 13, 1), (0, 0, 0), (0, 1, 0), (10000, 1, 1),
               (-1, 1, 1), ('2024', '2', '29'), ('2024', 'x', 1), ('y', 1, 1), (2024, 1, 'z'), (2024.0, 1, 1),
               (2024, 1.5, 1), (2024, 1, 1.5), (None, 1, 1), (2024, None, 1), (2024, 1, None), (empty, empty, empty),
               (2024, empty, empty), (True, True, True), (Odd(), 1, 1), (2024, Odd(), 1), (2024, 1, Odd()),
               ('x', Odd(), Odd()), (Odd(), 'x', 1), (2024, 'x', Odd()), (2024, 12 * 8000, 1), (2024, -12 * 3000, 1),
               (2024, 1, 3000000), (2024, 1, -800000), (Texty('24'), Texty('3'), Texty('4'))]
    for year, month, day in samples:
        out(label, f'_date({year!r},{month!r},{day!r})', '=>', call(instance._date, year, month, day))

    # YEAR, MONTH and DAY invert DATE
    digest = hashlib.sha256()
    for year, month, day in itertools.product([1900, 1999, 2024, 9999], range(-14, 27), [-40, 0, 1, 15, 29, 31, 45]):
        value = call(instance._date, year, month, day)
        parts = ''
        if value.startswith('datetime'):
            made = instance._date(year, month, day)
            parts = f'{instance._year(made)}-{instance._month(made)}-{instance._day(made)}'
        digest.update(f'{year}|{month}|{day}|{value}|{parts}\n'.encode())
    out(label, 'date inverse', digest.hexdigest())

    # NETWORKDAYS
    points, others = date_pairs()
    holidays = holiday_inputs(empty)
    digest = hashlib.sha256()
    count = 0
    for start, end in itertools.product(points + others, repeat=2):
        both = isinstance(start, datetime.datetime) and isinstance(end, datetime.datetime)
        far = both and abs((end - start).days) > 1200
        if both and abs((end - start).days) > 50000:
            continue
        for number in range(len(holidays)):
            if far and number > 1:
                continue
            days_off = holiday_inputs(empty)[number]
            result = call(instance._network_days, start, end, days_off)
            digest.update(f'{start!r}|{end!r}|{number}|{result}\n'.encode())
            count += 1
        result = call(instance._network_days, start, end)
        digest.update(f'{start!r}|{end!r}|default|{result}\n'.encode())
        count += 1
    out(label, '_network_days grid', count, digest.hexdigest())

    d = datetime.datetime
    readable = [
        (d(2023, 4, 1), d(2023, 5, 31), None), (d(2023, 5, 31), d(2023, 4, 1), None),
        (d(2023, 4, 1), d(2023, 5, 31), 9), (d(2023, 5, 31), d(2023, 4, 1), 10),
        (d(2024, 1, 1), d(2024, 1, 31), 9), (d(2024, 1, 31), d(2024, 1, 1), 9), (d(2024, 1, 6), d(2024, 1, 7), None),
        (d(2024, 1, 7), d(2024, 1, 6), None), (d(2024, 1, 5), d(2024, 1, 5), None),
        (d(2024, 1, 5, 23), d(2024, 1, 5, 1), None), (d(2024, 2, 26), d(2024, 3, 1), 11),
        (d(2024, 1, 1), d(2024, 1, 12), 12), (d(2024, 1, 1), d(2024, 1, 12), 13),
        (d(9999, 12, 24), d(9999, 12, 30), 14), (d(9999, 12, 24), d(9999, 12, 31), 14),
        (d(9999, 12, 31), d(9999, 12, 24), None), (d(9999, 12, 31), d(9999, 12, 31), []),
        (d(1, 1, 1), d(1, 1, 3), 14), (d(1, 1, 3), d(1, 1, 1), 14),
        (d(2024, 1, 1), d(2024, 1, 12), 15), (d(2024, 1, 1), d(2024, 1, 12), 16),
        (d(2024, 1, 1), d(2024, 1, 12), 17), (d(2024, 1, 1), d(2024, 1, 12), 18),
        (d(2024, 1, 1), d(2024, 1, 12), 19), (d(2024, 1, 1), d(2024, 1, 12), 20),
        (45000, d(2024, 1, 1), 15), (d(2024, 1, 1), '2024-01-05', 16), (datetime.date(2024, 1, 1), d(2024, 1, 5), None),
        (Stamp(2024, 1, 1), Stamp(2024, 1, 12), 12),
    ]
    for start, end, number in readable:
        days_off = holiday_inputs(empty)[number] if isinstance(number, int) else number
        out(label, f'_network_days({start!r},{end!r},#{number})', '=>',
            call(instance._network_days, start, end, days_off))

    # the public door next to the helpers answers the same for unknown names
    for name in ('_date', '_network_days', '_no_such_cell', '_0_0_0', '_WEEKEND', '_to_int', '_as_date'):
        out(label, f'exec_function_in({name})', '=>', call(instance.exec_function_in, name))
    names = sorted(n for n in vars(type(instance)) if not n[1:2].isdigit())
    out(label, 'helper names', len(names), hashlib.sha256(','.join(names).encode()).hexdigest())

    today = instance._today()
    now = datetime.datetime.combine(datetime.date.today(), datetime.time(0, 0))
    out(label, 'today', type(today).__name__, today == now or today == now - datetime.timedelta(days=1))


def build_workbook(path):
    d = datetime.datetime
    wb = Workbook()
    ws = wb.active
    ws.title = 'Dates'
    rows = [
        [d(2023, 4, 1), d(2023, 5, 31), '=NETWORKDAYS(A1,B1)'],
        [d(2023, 5, 31), d(2023, 4, 1), '=NETWORKDAYS(A2,B2)'],
        [d(2023, 5, 1), d(2023, 5, 8), '=NETWORKDAYS(A1,B1,A3:B4)'],
        [40, 'ewewwewe', '=NETWORKDAYS(A2,B2,A3:B4)'],
        [None, None, '=NETWORKDAYS(A5,B5)'],
        [2024, 2, '=DATE(A6,B6,30)'],
        ['2024', '14', '=DATE(A7,B7,0)'],
        ['x', -5, '=DATE(A8,B8,1)'],
        [99, 0, '=DATE(A9,B9,-1)'],
        [9999, 12, '=DATE(A10,B10,32)'],
        [10000, 1, '=DATE(A11,B11,1)'],
        [None, None, '=DATE(A12,B12,1)'],
        [None, None, '=YEAR(DATE(2024,14,31))*10000+MONTH(DATE(2024,14,31))*100+DAY(DATE(2024,14,31))'],
        [None, None, '=NETWORKDAYS(DATE(2024,1,1),DATE(2024,1,31),A1:B3)'],
        [None, None, '=NETWORKDAYS(DATE(2024,1,31),DATE(2024,1,1))'],
        [None, None, '=NETWORKDAYS(DATE(9999,12,24),DATE(9999,12,31))'],
        [None, None, '=NETWORKDAYS(DATE(2024,1,1),DATE(2024,1,1),A:B)'],
        [None, None, '=EDATE(DATE(2024,1,31),1)'],
        [None, None, '=EOMONTH(DATE(2023,12,15),2)'],
        [None, None, '=DATEDIF(DATE(2020,2,29),DATE(2024,2,28),"Y")'],
        [None, None, '=DAY(TODAY())-DAY(TODAY())'],
    ]
    for row in rows:
        ws.append(row)
    wb.save(path)
    return len(rows)


def main():
    directory = tempfile.mkdtemp(prefix='t52_r2_')
    try:
        path = os.path.join(directory, 'dates.xlsx')
        translation_path = os.path.join(directory, 'dates_translation.py')
        rows = build_workbook(path)
        Parser().set_excel_file_path(path).enable_safety_check().write_translation(translation_path)
        executor = Executor().set_executed_class(class_file=translation_path)

        exercise('class', Direct())
        exercise('template', executor.get_executed_class())

        for row in range(rows):
            out(f'Dates!C{row + 1}', '=>', call(lambda: executor.get_cell(Cell('Dates', 'C', str(row + 1))).value))
        executor.set_cells([Cell('Dates', 'A', '1', value=datetime.datetime(2023, 5, 30)),
                            Cell('Dates', 'B', '6', value='13'), Cell('Dates', 'A', '4', value=datetime.datetime(2023, 5, 30)),
                            Cell('Dates', 'B', '8', value='7'), Cell('Dates', 'A', '8', value=1899)])
        for row in range(rows):
            out(f'override Dates!C{row + 1}', '=>',
                call(lambda: executor.get_cell(Cell('Dates', 'C', str(row + 1))).value))
    finally:
        shutil.rmtree(directory, ignore_errors=True)
    text = '\n'.join(LINES)
    print(text)
    print('DIGEST', hashlib.sha256(text.encode()).hexdigest())
    return 0


if __name__ == '__main__':
    sys.exit(main())
