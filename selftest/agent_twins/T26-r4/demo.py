"""Equivalence demo for r4: the Excel reader (get_range / get_matrix / get_cells and their helpers).

Builds ragged multi-sheet workbooks, calls the reader API directly with many coordinate pairs (inside, on
the border of and outside the read area, whole columns, half-open ranges, different sheets, diagonal ranges,
string / integer / handled identifiers) and translates formulas that reach other cells through every
reference form (cell, vertical / horizontal range, whole-column range, matrix, multi-column whole columns,
other sheets) as whole workbook and as entry points.  Prints cells, values, generated functions and
exception class names / messages.
"""
import hashlib
import itertools
import os
import re
import shutil
import sys
import tempfile

from openpyxl import Workbook

from excel2pycl import Parser, Executor, Cell, Excel

LINES = []


def out(line):
    LINES.append(line)


def show(value):
    return f'{type(value).__name__}:{value!r}'


def attempt(function):
    try:
        return show(function())
    except BaseException as error:  # noqa
        return f'!{type(error).__name__}:{error}'


FUNCTION_RE = re.compile(r'^    def (_\d+_\d+_\d+(?:_\d+)?)\(self\):\n        return (.*)$', re.M)


def functions_of(text):
    return FUNCTION_RE.findall(text)


def flat(cells):
    if isinstance(cells, list):
        return [flat(i) for i in cells]
    if isinstance(cells, Cell):
        return (cells.title, cells.column, cells.row, cells.value, cells.has_handled_identifiers())
    return cells


def build(path):
    wb = Workbook()
    ws = wb.active
    ws.title = 'Data'
    # ragged: rows of different length, holes, a far away cell
    rows = [
        [1, 2, 3, 4],
        [10, None, 30],
        [],
        ['a', 'b', None, 'd', 'e', 'f'],
        [1.5, 2.5],
        [None, None, None, 7],
    ]
    for r, row in enumerate(rows, start=1):
        for c, value in enumerate(row, start=1):
            if value is not None:
                ws.cell(row=r, column=c, value=value)
    ws['H9'] = 99
    ws2 = wb.create_sheet('My Sheet')
    for r in range(1, 5):
        for c in range(1, 4):
            ws2.cell(row=r, column=c, value=r * 10 + c)
    ws3 = wb.create_sheet('Empty')
    ws4 = wb.create_sheet('F')
    formulas = [
        '=Data!A1', '=SUM(Data!A1:A6)', '=SUM(Data!A1:D1)', '=SUM(Data!A:A)', '=SUM(Data!A1:D6)', '=SUM(Data!A:D)',
        "=SUM('My Sheet'!A1:A4)", "=SUM('My Sheet'!A2:C2)", "=SUM('My Sheet'!A:A)", "=SUM('My Sheet'!A1:C4)",
        "=SUM('My Sheet'!A:C)", "=SUM('My Sheet'!B2:C3)", '=SUM(Data!A1:A1)', '=SUM(Data!D1:D20)', '=SUM(Data!A9:Z9)',
        '=SUM(Data!H:H)', '=SUM(Data!G8:I10)', '=SUM(Empty!A1:B2)', '=SUM(Empty!A:A)', '=Empty!A1', '=Data!Z100',
        '=COUNT(Data!A1:F6)', '=COUNTBLANK(Data!A1:F6)', '=MAX(Data!A1:D2)', '=MIN(Data!A1:A2,Data!C1:C2)',
        '=AVERAGE(Data!A5:B5)', '=VLOOKUP(10,Data!A1:C2,3,0)', '=INDEX(Data!A1:D2,2,3)', '=MATCH(30,Data!A2:C2,0)',
        '=SUMIF(Data!A1:A2,">0",Data!C1:C2)', "=SUMIFS('My Sheet'!A1:A4,'My Sheet'!B1:B4,\">20\")",
        "=COUNTIFS('My Sheet'!A1:A4,\">15\")", '=SUM(A1:A3)', '=SUM($A$1:$A$3)', '=SUM(Data!$A$1:$D$1)',
        '=Data!A4&Data!B4', '=SUM(Data!A1:A)', '=SUM(Data!A:A3)', "=SUM(Data!A1:A2,'My Sheet'!A1:A2)",
        '=SUM(Data!B:B)+SUM(Data!C:C)', '=SUM(Data!A2:A5)', '=SUM(Data!B1:B6)', '=SUM(Data!A1:B1)*SUM(Data!A1:A2)',
        '=Nope!A1', '=SUM(Nope!A1:A2)', '=SUM(Data!A1:B)', '=SUM(Data!1:1)', '=SUM(Data!D6:A1)', '=SUM(Data!A6:A1)',
        '=SUM(Data!D1:A1)', '=SUM(Data!XFD1:XFD2)', '=SUM(Data!A1048576)',
    ]
    for r, formula in enumerate(formulas, start=1):
        ws4.cell(row=r, column=1, value=formula)
    wb.save(path)
    wb.close()
    return formulas


def reader_part(path):
    excel = Excel.parse(path)
    out(f'titles={excel.get_titles()} sizes={excel.get_sheets_size()}')
    cells = excel.get_cells()
    out(f'get_cells n={len(cells)} sha256={hashlib.sha256(repr(flat(cells)).encode()).hexdigest()}')
    for cell in cells[:60]:
        out(f'   {flat(cell)}')
    out(f'get_cells again equal={flat(excel.get_cells()) == flat(cells)}')

    coordinates = [(0, 0), (0, 2), (1, 1), (3, 0), (3, 5), (5, 3), (2, 0), (8, 7), (9, 9), (0, 30), (30, 0), (0, -1),
                   (-1, 0), (None, 0), (None, 3)]
    titles = [0, 1, 2, 'Data', 'My Sheet', 5, -1, 'Nope']
    digest = hashlib.sha256()
    count = 0
    for (title_a, title_b) in [(0, 0), (1, 1), (2, 2), ('Data', 'Data'), ('My Sheet', 1), (0, 1), (5, 5), (-1, -1),
                               ('Nope', 0), (0, 'Nope'), (3, 3)]:
        for (row_a, col_a), (row_b, col_b) in itertools.product(coordinates, repeat=2):
            for name in ('get_range', 'get_matrix'):
                first, second = Cell(title_a, col_a, row_a), Cell(title_b, col_b, row_b)
                result = attempt(lambda: flat(getattr(excel, name)(first, second)))
                line = f'{name}({title_a!r},{col_a},{row_a} : {title_b!r},{col_b},{row_b}) -> {result}'
                digest.update(line.encode() + b'\n')
                count += 1
                if count % 211 == 0 or (title_a == 0 and title_b == 0 and row_a in (0, None) and col_a == 0
                                        and (row_b, col_b) in ((3, 0), (0, 2), (1, 1), (None, 0), (None, 3), (0, -1))):
                    out(line if len(line) < 900 else line[:900] + '...')
    out(f'reader grid calls={count} sha256={digest.hexdigest()}')

    # Excel-style string identifiers (as they come from the formula tokens)
    for name, first, second in [
        ('get_range', Cell('Data', 'A', '1'), Cell('Data', 'A', '6')),
        ('get_range', Cell('Data', 'A', '1'), Cell('Data', 'F', '1')),
        ('get_range', Cell('Data', 'A', ''), Cell('Data', 'A', '')),
        ('get_range', Cell('Data', 'A', '2'), Cell('Data', 'A', '')),
        ('get_range', Cell('Data', 'A', ''), Cell('Data', 'A', '3')),
        ('get_range', Cell('Data', 'A', ''), Cell('Data', 'C', '')),
        ('get_range', Cell('Data', 'A', '1'), Cell('Data', 'B', '2')),
        ('get_range', Cell('Data', 'A', '1'), Cell('My Sheet', 'A', '2')),
        ('get_range', Cell('Data', 'C', '1'), Cell('Data', 'A', '1')),
        ('get_range', Cell('Data', 'A', '5'), Cell('Data', 'A', '1')),
        ('get_range', Cell('Empty', 'A', ''), Cell('Empty', 'A', '')),
        ('get_range', Cell('Nope', 'A', '1'), Cell('Data', 'A', '2')),
        ('get_matrix', Cell('Data', 'A', '1'), Cell('Data', 'D', '6')),
        ('get_matrix', Cell('Data', 'A', ''), Cell('Data', 'A', '')),
        ('get_matrix', Cell('Data', 'A', ''), Cell('Data', 'D', '')),
        ('get_matrix', Cell('My Sheet', 'A', ''), Cell('My Sheet', 'C', '')),
        ('get_matrix', Cell('Empty', 'A', ''), Cell('Empty', 'B', '')),
        ('get_matrix', Cell('Data', 'A', '1'), Cell('Data', 'B', '')),
        ('get_matrix', Cell('Data', 'A', ''), Cell('Data', 'B', '2')),
        ('get_matrix', Cell('Data', 'D', '6'), Cell('Data', 'A', '1')),
        ('get_matrix', Cell('Data', 'A', '1'), Cell('My Sheet', 'B', '2')),
        ('get_matrix', Cell('Data', 'G', '8'), Cell('Data', 'I', '10')),
        ('get_matrix', Cell('Data', 'A', '1'), Cell('Nope', 'B', '2')),
    ]:
        out(f'{name}({first} : {second}) -> {attempt(lambda: flat(getattr(excel, name)(first, second)))}')

    for cell in (Cell(0, 0, 0), Cell('Data', 'H', '9'), Cell('Data', 'H', '10'), Cell('Data', 'I', '9'),
                 Cell('Empty', 'A', '1'), Cell(0, 0, None), Cell('Data', 'A', ''), Cell(7, 0, 0), Cell('Nope', 'A', '1'),
                 Cell(0, -1, 0), Cell(0, 0, -1), Cell(-1, 0, 0), Cell(0, 'A', 1), Cell('Data', 3, '1')):
        out(f'fill_cell({cell}) -> {attempt(lambda: flat(excel.fill_cell(cell)))}')

    for base, first, second in [
        (Cell('Data', 'A', '1'), Cell('Data', 'B', '2'), Cell('Data', 'D', '5')),
        (Cell('My Sheet', 'C', '3'), Cell('Data', 'A', ''), Cell('Data', 'A', '')),
        (Cell('Data', 'A', '1'), Cell('Data', 'A', '1'), Cell('Data', 'A', '')),
    ]:
        out(f'get_similar_second({base},{first},{second}) -> '
            f'{attempt(lambda: flat(excel.get_similar_second(base, first, second)))}')

    # duplicated titles given to the constructor directly: the last sheet wins
    direct = Excel({'data': [[[1]], [[2]], [[3, 4], [5]]], 'titles': ['S', 'T', 'S'], 'suspicious_cells': {},
                    'sheets_size': []})
    out(f'direct titles={direct.get_titles()} cells={flat(direct.get_cells())}')
    out(f'direct range={attempt(lambda: flat(direct.get_range(Cell("S", "A", ""), Cell("S", "A", ""))))}')
    out(f'direct matrix={attempt(lambda: flat(direct.get_matrix(Cell("S", "A", "1"), Cell("S", "B", "2"))))}')
    empty = Excel({'data': [], 'titles': [], 'suspicious_cells': {}, 'sheets_size': []})
    out(f'empty titles={empty.get_titles()} cells={flat(empty.get_cells())} '
        f'fill={attempt(lambda: flat(empty.fill_cell(Cell(0, 0, 0))))}')


def translation_part(tmp, path, formulas):
    out('whole ' + attempt(lambda: len(Parser().set_excel_file_path(path).get_translation())))
    valid = []
    for row, formula in enumerate(formulas):
        parser = Parser().set_excel_file_path(path).set_entrypoint_cell(Cell('F', 'A', str(row + 1)))
        result = attempt(parser.get_translation)
        if result.startswith('!'):
            out(f'entry F!A{row + 1} {formula} {result}')
            continue
        valid.append(row)
        text = parser.get_translation()
        out(f'entry F!A{row + 1} {formula} sha256={hashlib.sha256(text.encode()).hexdigest()}')
        for name, code in functions_of(text):
            out(f'   def {name}: {code if len(code) < 600 else code[:600] + "..."}')
        entry_py = os.path.join(tmp, f'entry_{row}.py')
        parser.write_translation(entry_py)
        executor = Executor().set_executed_class(class_file=entry_py)
        out(f'   value={attempt(lambda: executor.get_cell(Cell(3, 0, row)).value)}')
        executor.set_cells([Cell('Data', 'A', '1', value=1000), Cell('My Sheet', 'B', '2', value=-5),
                            Cell('Data', 'A', '3', value=0.25)])
        out(f'   value after set_cells={attempt(lambda: executor.get_cell(Cell(3, 0, row)).value)}')

    # whole translation of a copy that contains only the accepted formulas
    from openpyxl import load_workbook
    path2 = os.path.join(tmp, 'valid.xlsx')
    wb = load_workbook(path)
    ws = wb['F']
    for row in range(len(formulas)):
        if row not in valid:
            ws.cell(row=row + 1, column=1).value = None
    wb.save(path2)
    wb.close()
    parser = Parser().set_excel_file_path(path2)
    result = attempt(parser.get_translation)
    if result.startswith('!'):
        out(f'whole(valid) {result}')
        return
    text = parser.get_translation()
    out(f'whole(valid) sha256={hashlib.sha256(text.encode()).hexdigest()} functions={len(functions_of(text))}')
    whole_py = os.path.join(tmp, 'whole.py')
    parser.write_translation(whole_py)
    executor = Executor().set_executed_class(class_file=whole_py)
    for row in valid:
        out(f'whole(valid) F!A{row + 1}={attempt(lambda: executor.get_cell(Cell(3, 0, row)).value)}')
    for sheet in (0, 'My Sheet', 2, 'F'):
        out(f'whole(valid) sheet {sheet!r}: {attempt(lambda: [[c.value for c in r] for r in executor.get_sheet(sheet)])}')


def main():
    tmp = tempfile.mkdtemp(prefix='t26_r4_')
    try:
        path = os.path.join(tmp, 'reader.xlsx')
        formulas = build(path)
        reader_part(path)
        translation_part(tmp, path, formulas)
    finally:
        shutil.rmtree(tmp, ignore_errors=True)
    text = '\n'.join(LINES)
    print(text)
    print('TOTAL', len(LINES), hashlib.sha256(text.encode()).hexdigest())
    return 0


if __name__ == '__main__':
    sys.exit(main())
