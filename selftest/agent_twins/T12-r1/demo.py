"""Equivalence demo for r1 (CellTranslator._set_cell_to_context split into helpers).

Builds its own workbooks in a temp dir, translates them as a whole and from every
possible entry cell, checks / prints the values, the generated text digests and
the exceptions raised for cyclic / malformed workbooks.  Output is deterministic.
"""
import datetime
import hashlib
import os
import re
import shutil
import tempfile

from openpyxl import Workbook

from excel2pycl import Parser, Executor, Cell, Context, Excel, CellTranslator

TMP = tempfile.mkdtemp(prefix='t12r1_')
COUNTER = [0]


def digest(text):
    return hashlib.sha256(text.encode('utf-8')).hexdigest()[:16]


def show(value):
    text = f'{type(value).__name__}:{value!r}'
    return re.sub(r'0x[0-9a-fA-F]+', '0x?', text)


def outcome(fn):
    try:
        return 'OK ' + show(fn())
    except BaseException as e:  # noqa
        return 'EXC ' + type(e).__name__ + ' ' + re.sub(r'0x[0-9a-fA-F]+', '0x?', str(e))[:300]


def build(sheets):
    """sheets: list of (title, rows)"""
    COUNTER[0] += 1
    path = os.path.join(TMP, f'wb{COUNTER[0]}.xlsx')
    wb = Workbook()
    wb.remove(wb.active)
    for title, rows in sheets:
        ws = wb.create_sheet(title)
        for r, row in enumerate(rows, start=1):
            for c, value in enumerate(row, start=1):
                if value is not None:
                    ws.cell(row=r, column=c, value=value)
    wb.save(path)
    return path


def load(text):
    COUNTER[0] += 1
    path = os.path.join(TMP, f'cls{COUNTER[0]}.py')
    with open(path, 'w', encoding='utf-8') as f:
        f.write(text)
    return Executor().set_executed_class(class_file=path)


def functions_of(text):
    return re.findall(r'^    def (_\d+_\d+_\d+)\(self\):', text, flags=re.M)


MAIN = [
    ('Data', [
        [1, 2.5, 'text', True, None, datetime.datetime(2024, 2, 29)],
        [4, 5, 'apple', False, 0, '=A1+B1'],
        [7, 8, 'pear', None, -3, '=SUM(A1:A3)'],
        [None, 11, 'apple', 1, 2, '=SUM(A1:E1)'],
        [13, '=A5*2', '', 3, 4, '=F2+F3+F4'],
    ]),
    ('Calc', [
        ['=Data!A1+Data!B2', "='Sheet 3'!A1*2", '=SUM(Data!A1:B3)', '=IF(Data!D1, A1, B1)'],
        ['=SUM(Data!A:A)', '=SUMIF(Data!C1:C5, "apple", Data!B1:B5)', '=VLOOKUP(7, Data!A1:C5, 3, FALSE)',
         '=INDEX(Data!A1:C3;2;2)'],
        ['=MATCH(5;Data!B1:B5;0)', '=Data!Z99', '=AVERAGE(Data!A1:B2)+A1', '=MAX(A1:D2)'],
        ['=COUNT(Data!A1:F1)', '=Data!C1&Data!C2', '=MIN(Data!E1:E5)', '=IF(A1>100, C4, D3)'],
        ['=Data!F5', '=A5+A5+A5', '=IFERROR(Data!A1/Data!E2, "div")', '=Data!A1/Data!E2'],
        ['=SUM(Data!A1:A2, Data!B1:B2)', '=$A$1+Data!$B$1', '=ROUND(Data!B1*3, 0)', '=Data!E1'],
    ]),
    ('Sheet 3', [
        ['=Calc!B5', 'x'],
        [None, '=A1+Calc!A1'],
    ]),
]

print('== whole-workbook translation')
main_path = build(MAIN)
parser = Parser().set_excel_file_path(main_path)
whole_text = parser.get_translation()
print('text', digest(whole_text), len(functions_of(whole_text)))
whole = load(whole_text)
whole_values = {}
for index, (title, rows) in enumerate(MAIN):
    height = max(len(rows), 1)
    width = max(len(r) for r in rows)
    for r in range(height + 1):
        for c in range(width + 1):
            uid = f'_{index}_{c}_{r}'
            whole_values[uid] = outcome(lambda: whole.get_cell(Cell(index, c, r)).value)
            print(uid, whole_values[uid])

print('== entry-point translations (every cell of every sheet, plus outside cells)')
mismatches = 0
for index, (title, rows) in enumerate(MAIN):
    height = len(rows)
    width = max(len(r) for r in rows)
    for r in range(height + 1):
        for c in range(width + 1):
            entry_parser = Parser().set_excel_file_path(main_path).set_entrypoint_cell(Cell(index, c, r))
            res = outcome(entry_parser.get_translation)
            if not res.startswith('OK'):
                print('entry', index, c, r, res)
                continue
            text = entry_parser.get_translation()
            names = functions_of(text)
            ex = load(text)
            values = []
            for name in names:
                _, t, cc, rr = name.split('_')
                got = outcome(lambda: ex.get_cell(Cell(int(t), int(cc), int(rr))).value)
                expected = whole_values.get(name) or outcome(
                    lambda: whole.get_cell(Cell(int(t), int(cc), int(rr))).value)
                if got != expected:
                    mismatches += 1
                values.append(name + '=' + got)
            print('entry', index, c, r, digest(text), len(names), digest('|'.join(values)),
                  values[0] if values else '-')
print('mismatches with whole-workbook values:', mismatches)

print('== entry given with Excel-style identifiers')
for title, column, row in [('Calc', 'D', '4'), ('Sheet 3', 'B', '2'), ('Data', 'F', '5'), ('Data', 'AA', '100'),
                           ('Nope', 'A', '1'), ('Calc', 'A', '')]:
    p = Parser().set_excel_file_path(main_path).set_entrypoint_cell(Cell(title, column, row))
    res = outcome(p.get_translation)
    if res.startswith('OK'):
        text = p.get_translation()
        print(title, column, row, digest(text), functions_of(text))
    else:
        print(title, column, row, res)

print('== cyclic and malformed workbooks')
CASES = {
    'self': [('S', [['=A1']])],
    'self_plus': [('S', [['=A1+1', 5]])],
    'two': [('S', [['=B1', '=A1']])],
    'three': [('S', [['=B1', '=C1', '=A1+1']])],
    'via_range': [('S', [['=SUM(B1:B3)', 1], [None, '=A1'], [None, 3]])],
    'via_matrix': [('S', [['=SUM(B1:C2)', 1, 2], [None, 3, '=A1']])],
    'via_column': [('S', [['=SUM(B:B)', 1], [None, '=A1']])],
    'cross_sheet': [('S', [['=T!A1']]), ('T', [['=S!A1']])],
    'untaken_branch': [('S', [['=IF(TRUE, 1, A1)']])],
    'tail_cycle': [('S', [[1, '=A1+1', '=D1', '=C1']])],
    'diamond_no_cycle': [('S', [['=B1+C1', '=D1', '=D1', 4]])],
    'repeat_no_cycle': [('S', [['=B1+B1+SUM(B1:B1)', '=C1', 2]])],
    'only_eq': [('S', [['=']])],
    'bad_formula': [('S', [['=1+']])],
    'unknown_fn': [('S', [['=FOO(1)']])],
    'bad_dep': [('S', [['=B1', '=)(']])],
    'string_with_eq': [('S', [['a=b', ' =1', "'=1", '', '=1=1']])],
    'diag_range': [('S', [['=SUM(B1:C2)+B1:C2', 1, 2], [None, 3, 4]])],
}
for name, sheets in CASES.items():
    path = build(sheets)
    p = Parser().set_excel_file_path(path).disable_safety_check()
    res = outcome(p.get_translation)
    if res.startswith('OK'):
        text = p.get_translation()
        ex = load(text)
        vals = [outcome(lambda: ex.get_cell(Cell(0, c, 0)).value) for c in range(5)]
        print(name, 'whole', digest(text), functions_of(text), vals)
    else:
        print(name, 'whole', res)
    # every cell of the first row as an entry point
    for c in range(5):
        p = Parser().set_excel_file_path(path).disable_safety_check().set_entrypoint_cell(Cell(0, c, 0))
        res = outcome(p.get_translation)
        if res.startswith('OK'):
            text = p.get_translation()
            ex = load(text)
            print(name, 'entry', c, digest(text), functions_of(text),
                  outcome(lambda: ex.get_cell(Cell(0, c, 0)).value))
        else:
            print(name, 'entry', c, res)

print('== CellTranslator called directly on an in-memory Excel object')
VALUES = [None, 0, 1, -2, 1.5, float('inf'), True, False, '', 'plain', '=', '=1+1', ' =1+1', 'a=1', "it's", 'q"q',
          '=B1', '=A1', '=SUM(A1:C1)', datetime.datetime(2020, 1, 2, 3, 4, 5), datetime.time(1, 2), b'bytes',
          '=IF(', '==1', '=\n1', '\n=1', 'ünï', '=A99', 10 ** 30]
for value in VALUES:
    excel = Excel({'data': [[[value, 7, '=B1*2']]], 'titles': ['S'], 'suspicious_cells': {}, 'sheets_size': []})

    def run_translate():
        context = Context()
        code = CellTranslator.translate(Cell(0, 0, 0), excel, context)
        again = CellTranslator.translate(Cell(0, 0, 0), excel, context)
        by_title = CellTranslator.translate(Cell('S', 'A', '1'), excel, context)
        return code, again, by_title, context._cell_translations, context._sub_cell_translations, \
            context._cells_in_progress

    def run_file():
        context = Context()
        CellTranslator.translate_file(excel, context)
        return context._cell_translations, context._sub_cell_translations, context._cells_in_progress, \
            digest(context.build_class())

    print(show(value), '->', outcome(run_translate))
    print(show(value), '=>', outcome(run_file))

print('== state of the context after a rejected cycle')
excel = Excel({'data': [[['=B1', '=A1', 3, '=C1']]], 'titles': ['S'], 'suspicious_cells': {}, 'sheets_size': []})
context = Context()
print(outcome(lambda: CellTranslator.translate(Cell(0, 0, 0), excel, context)))
print(sorted(context._cells_in_progress), context._cell_translations)
print(outcome(lambda: CellTranslator.translate(Cell(0, 3, 0), excel, context)))
print(sorted(context._cells_in_progress), context._cell_translations)
print(outcome(lambda: CellTranslator.translate(Cell(0, 1, 0), excel, context)))
print(sorted(context._cells_in_progress), context._cell_translations)

shutil.rmtree(TMP, ignore_errors=True)
print('tmp removed:', not os.path.exists(TMP))
