"""Equivalence demo for r1: Executor.set_cells / Executor.get_sheet restructuring.

Builds a two-sheet workbook, translates it, and drives the Executor facade through
many query orders, addressing styles, overrides and rejected inputs.  Everything
observable (values, sheet sizes, override table order, exception class names) is
printed, followed by a digest.
"""
import datetime
import hashlib
import os
import shutil
import tempfile

from openpyxl import Workbook

from excel2pycl import Parser, Executor, Cell

LINES = []


def out(*parts):
    line = ' '.join(str(p) for p in parts)
    LINES.append(line)
    print(line)


def show(value):
    return f'{type(value).__name__}:{value!r}'


def attempt(label, fn):
    try:
        result = fn()
    except BaseException as exc:  # noqa
        out(label, '-> EXC', type(exc).__name__)
        return None
    out(label, '->', result)
    return result


def build_workbook(path):
    wb = Workbook()
    ws = wb.active
    ws.title = 'Main'
    ws['A1'] = 1
    ws['B1'] = 2.5
    ws['C1'] = '=A1+B1'
    ws['D1'] = '=SUM(A1:C1)'
    ws['A2'] = 'text'
    ws['B2'] = '=IF(A1>0,"pos","neg")'
    ws['C2'] = "=Other!A1*2"
    ws['A3'] = datetime.datetime(2024, 2, 29)
    ws['B3'] = '=YEAR(A3)'
    ws['E4'] = '=C1*10'
    ws['B5'] = '=SUM(A1:A4)'
    other = wb.create_sheet('Other')
    other['A1'] = 21
    other['B2'] = '=Main!D1+A1'
    other['C3'] = '=LEFT(Main!A2,2)'
    wb.create_sheet('Empty')
    wb.save(path)
    wb.close()


def grid_repr(grid):
    return [[(c.title, c.column, c.row, show(c.value)) for c in row] for row in grid]


def sizes(executor):
    return repr(executor.get_executed_class().get_sheets_size())


def state(executor):
    return 'sizes=' + sizes(executor) + ' overrides=' + repr(
        [(uid, show(c.value)) for uid, c in executor._cells.items()]) + ' args=' + repr(
        [(uid, show(v)) for uid, v in executor.get_executed_class()._arguments.items()])


def main():
    tmp = tempfile.mkdtemp(prefix='r1demo')
    try:
        xlsx = os.path.join(tmp, 'book.xlsx')
        out_py = os.path.join(tmp, 'book.py')
        build_workbook(xlsx)
        Parser().set_excel_file_path(xlsx).write_translation(out_py)

        def fresh():
            return Executor().set_executed_class(class_file=out_py)

        # 1. plain grids, every sheet, by index and by title, repeated
        ex = fresh()
        out('initial', state(ex))
        for sheet in (0, 'Main', 1, 'Other', 2, 'Empty', 0):
            out('grid', sheet, grid_repr(ex.get_sheet(sheet)))
            out('after', sheet, state(ex))
        attempt('grid unknown title', lambda: ex.get_sheet('Nope'))
        attempt('grid bad index', lambda: ex.get_sheet(7))
        attempt('grid -1', lambda: grid_repr(ex.get_sheet(-1)))
        attempt('grid None', lambda: ex.get_sheet(None))
        attempt('grid float', lambda: ex.get_sheet(1.0))

        # 2. single cells in several addressing styles and orders agree with the grid
        ex2 = fresh()
        singles = {}
        for sheet_index, title in ((1, 'Other'), (0, 'Main')):
            size = ex2.get_executed_class().get_sheets_size()[sheet_index]
            for row in reversed(range(size['last_row'])):
                for column in range(size['last_column']):
                    singles[(sheet_index, column, row)] = show(ex2.get_cell(Cell(sheet_index, column, row)).value)
        out('singles', sorted(singles.items()))
        for sheet_index in (0, 1):
            grid = ex2.get_sheet(sheet_index)
            agree = all(show(c.value) == singles[(sheet_index, c.column, c.row)] for r in grid for c in r)
            out('grid agrees with singles', sheet_index, agree, len(grid), [len(r) for r in grid])
        out('a1', [show(ex2.get_cell(Cell('Main', col, row)).value)
                   for col, row in (('A', '1'), ('C', '1'), ('D', '1'), ('E', '4'), ('B', '5'), ('Z', '99'))])
        out('list', [show(c.value) for c in ex2.get_cells(
            [Cell(0, 2, 0), Cell('Other', 'B', '2'), Cell(1, 2, 2), Cell('Main', 'C', '2'), Cell(0, 2, 0)])])
        out('after queries', state(ex2))

        # 3. overrides: sizes grow, grid follows, order of the override table is kept
        ex3 = fresh()
        steps = [
            [Cell(0, 0, 0, value=10)],
            [Cell('Main', 'B', '1', value=0.5), Cell('Other', 'A', '1', value=-4)],
            [Cell(0, 6, 1, value='far column')],
            [Cell(0, 1, 7, value='far row')],
            [Cell('Other', 'F', '9', value=True), Cell(0, 0, 0, value=11)],
            [Cell(2, 1, 1, value=3)],
            [Cell(0, 4, 4, value=None)],
            [],
            [Cell(0, 0, 0, value=12), Cell(0, 0, 0, value=13)],
        ]
        for number, step in enumerate(steps):
            result = ex3.set_cells(step)
            out('step', number, result is ex3, state(ex3))
            for sheet in (0, 1, 2):
                out('  grid', sheet, grid_repr(ex3.get_sheet(sheet)))
            out('  after', state(ex3))

        # 4. rejected / odd inputs and what they leave behind
        ex4 = fresh()
        bad_inputs = [
            ('unknown title', lambda: [Cell('Nope', 'A', '1', value=1)]),
            ('sheet index too large', lambda: [Cell(9, 0, 0, value=1)]),
            ('row is empty string', lambda: [Cell('Main', 'A', '', value=1)]),
            ('row is None', lambda: [Cell(0, 0, None, value=1)]),
            ('column is None', lambda: [Cell(0, None, 0, value=1)]),
            ('good then bad', lambda: [Cell(0, 9, 9, value=1), Cell('Nope', 'A', '1', value=2)]),
            ('good then bad column', lambda: [Cell(1, 0, 11, value=1), Cell(1, None, 20, value=2)]),
            ('float row', lambda: [Cell(0, 0, 9.0, value=1)]),
            ('float column and row', lambda: [Cell(0, 1.5, 2.5, value=1)]),
            ('negative', lambda: [Cell(0, -3, -3, value=5)]),
            ('negative sheet', lambda: [Cell(-1, 0, 4, value=5)]),
            ('bool indexes', lambda: [Cell(True, True, True, value=6)]),
            ('bad column letters', lambda: [Cell('Main', '1', '1', value=6)]),
            ('not a list', lambda: 5),
            ('not cells', lambda: [1]),
            ('tuple of cells', lambda: (Cell(0, 3, 3, value='t'),)),
        ]
        for label, make in bad_inputs:
            attempt('set_cells ' + label, lambda: ex4.set_cells(make()) is ex4)
            out('  ', state(ex4))
        for sheet in (0, 1, 2):
            attempt('grid after odd ' + str(sheet), lambda: grid_repr(ex4.get_sheet(sheet)))

        # 5. an executor over a class object shares the same code path
        from excel2pycl.src.utilities.abstract_excel_in_python_class import AbstractExcelInPython

        class Tiny(AbstractExcelInPython):
            def __init__(self):
                super().__init__()
                self._titles = {'S': 0}
                self._sheets_size = [{'last_row': 2, 'last_column': 2}]

            def _0_0_0(self):
                return 5

            def _0_1_1(self):
                return self._cell_preprocessor('_0_0_0') * 2

        ex5 = Executor().set_executed_class(class_object=Tiny)
        out('tiny', grid_repr(ex5.get_sheet('S')), state(ex5))
        ex5.set_cells([Cell('S', 'A', '1', value=7), Cell('S', 'C', '3', value=1)])
        out('tiny', grid_repr(ex5.get_sheet(0)), state(ex5))
        sizeless = Executor().set_executed_class(class_object=Tiny)
        sizeless._sheets_size[0].pop('last_column')
        out('no last_column', grid_repr(sizeless.get_sheet(0)))
        attempt('set_cells without last_column', lambda: sizeless.set_cells([Cell(0, 0, 5, value=1)]) is sizeless)
        out('  ', state(sizeless))
    finally:
        shutil.rmtree(tmp, ignore_errors=True)

    print('DIGEST', hashlib.sha256('\n'.join(LINES).encode('utf-8')).hexdigest())


if __name__ == '__main__':
    main()
