"""Equivalence demo for r3: the LEFT / RIGHT runtime helpers (both copies).

Calls _left / _right / _mid of (a) a trivial subclass of AbstractExcelInPython and (b) the
ExcelInPython class generated from a workbook, on a grid of texts and counts including
the boundary and ill-typed ones; checks the rebuild identity LEFT & MID; runs LEFT/RIGHT/MID
formulas through Parser/Executor with overridden cells.  Prints one line per probe.
"""
import datetime
import hashlib
import os
import re
import shutil
import tempfile

from openpyxl import Workbook

from excel2pycl import Parser, Executor, Cell
from excel2pycl.src.utilities.abstract_excel_in_python_class import AbstractExcelInPython


class Direct(AbstractExcelInPython):
    pass


def show(value):
    return f'{type(value).__name__}:{value!r}'


def show_exc(e):
    return f'EXC {e.__class__.__name__}: {e}'


def call(function, *args):
    try:
        return show(function(*args))
    except Exception as e:  # noqa
        return show_exc(e)


def texts(instance):
    return [
        '', 'a', 'ab', 'abc', 'Hello world', ' lead', 'trail ', 'привет мир', 'naïve café', 'a\nb', '𝔘𝔫𝔦', '12345', '0',
        instance.EmptyCell(), None, 0, 5, 12.5, True, False, ['a', 'b', 'c'], [], ('x', 'y'), b'bytes',
        datetime.datetime(2020, 1, 2), '#VALUE!',
    ]


def counts(instance):
    return [None, -100, -1, 0, 1, 2, 3, 4, 5, 10, 11, 12, 100, 10 ** 30, -0.5, 0.0, 0.5, 1.0, 2.5, float('inf'),
            float('nan'), True, False, instance.EmptyCell(), '2', '', [1]]


def helper_grid(label, instance):
    digest = hashlib.sha256()
    lines = 0
    for text in texts(instance):
        for count in counts(instance):
            for name in ('_left', '_right'):
                line = f'{label} {name}({show(text)}, {show(count)}) -> {call(getattr(instance, name), text, count)}'
                digest.update(line.encode())
                lines += 1
                if isinstance(text, str) and len(text) in (0, 3, 11) or text is None or isinstance(count, (float, str)):
                    print(line)
    print(f'{label} grid lines={lines} digest={digest.hexdigest()}')


def algebra(label, instance):
    bad = 0
    checked = 0
    for text in ['a', 'ab', 'abc', 'Hello world', 'привет мир', '12345', 'x' * 40]:
        length = len(text)
        for n in range(0, length + 3):
            left, right = instance._left(text, n), instance._right(text, n)
            checked += 1
            if left != text[:n] or right != (text[-n:] if n else '') and not (n == 0 and right == ''):
                bad += 1
            if n < length:
                rebuilt = instance._excel_value_to_string(left) + instance._excel_value_to_string(
                    instance._mid(text, n + 1, length))
                if rebuilt != text:
                    bad += 1
            if n <= length and n:
                if instance._excel_value_to_string(instance._left(text, length - n)) + right != text:
                    bad += 1
        print(f'{label} algebra {text!r}: left0={show(instance._left(text, 0))} right0={show(instance._right(text, 0))} '
              f'leftNone={show(instance._left(text, None))} rightNone={show(instance._right(text, None))}')
    print(f'{label} algebra checked={checked} violations={bad}')


FORMULAS = [
    '=LEFT(A1,2)', '=LEFT(A1)', '=LEFT(A1,0)', '=LEFT(A1,100)', '=LEFT(A1,-1)', '=LEFT(A1,B1)', '=LEFT(A2,2)', '=LEFT(A3,1)',
    '=RIGHT(A1,2)', '=RIGHT(A1)', '=RIGHT(A1,0)', '=RIGHT(A1,100)', '=RIGHT(A1,-1)', '=RIGHT(A1,B1)', '=RIGHT(A2,2)',
    '=RIGHT(A3,1)', '=LEFT(A1,B1)&MID(A1,B1+1,100)', '=LEFT(A1,5)&RIGHT(A1,6)', '=LEFT(RIGHT(A1,5),2)',
    '=RIGHT(LEFT(A1,5),2)', '=LEFT("abc",2)&RIGHT("abc",1)', '=LEFT(A4,2)', '=RIGHT(A4,2)', '=LEFT(A1,B2)', '=RIGHT(A1,B2)',
    '=LEFT(A1,B3)', '=RIGHT(A1,B3)', '=IFERROR(LEFT(A4,2),"err")', '=IFERROR(RIGHT(A1,-2),"err")', '=LEFT(A1&A2,7)',
    '=RIGHT(A1&A2,7)', '=VALUE(LEFT(A5,2))+VALUE(RIGHT(A5,2))', '=LEFT(A5)', '=RIGHT(A5)', '=MID(A1,2,3)', '=MID(A1,0,3)',
    '=MID(A1,2,-1)', '=MID(A1,50,2)', '=CONCATENATE(LEFT(A1,1),MID(A1,2,100))',
]

OVERRIDES = [
    [],
    [('A', '1', 'Refactoring'), ('B', '1', 4)],
    [('A', '1', ''), ('B', '1', 1)],
    [('A', '1', 'xy'), ('B', '1', 0), ('A', '2', 'Z')],
    [('A', '1', 'тест'), ('B', '1', 100), ('A', '5', '9876')],
    [('A', '1', 12345), ('B', '1', 2)],
    [('A', '1', 'abc'), ('B', '1', 1.5)],
    [('A', '1', 'abc'), ('B', '1', None)],
]


def pipeline(tmp):
    xlsx = os.path.join(tmp, 'book.xlsx')
    out_py = os.path.join(tmp, 'translated.py')
    wb = Workbook()
    ws = wb.active
    ws.title = 'Data'
    ws['A1'], ws['B1'] = 'Hello world', 3
    ws['A2'], ws['B2'] = 'excel', 2.0
    ws['A3'] = None
    ws['A4'], ws['B3'] = 1234, '2'
    ws['A5'] = '1234'
    for n, formula in enumerate(FORMULAS):
        ws.cell(row=n + 1, column=4).value = formula
    wb.save(xlsx)
    text = Parser().set_excel_file_path(xlsx).write_translation(out_py).get_translation()
    bodies = re.findall(r'    def (_\d+_\d+_\d+(?:_\d+)?)\(self\):\n        return (.*)', text)
    for name, body in bodies:
        print(f'GEN {name}: {body}')
    for overrides in OVERRIDES:
        executor = Executor().set_executed_class(class_file=out_py)
        if overrides:
            executor.set_cells([Cell('Data', column, row, value=value) for column, row, value in overrides])
        for n, formula in enumerate(FORMULAS):
            try:
                out = show(executor.get_cell(Cell('Data', 'D', str(n + 1))).value)
            except Exception as e:  # noqa
                out = show_exc(e)
            print(f'RUN {overrides!r} {formula!r} -> {out}')
    return Executor().set_executed_class(class_file=out_py).get_executed_class()


def main():
    tmp = tempfile.mkdtemp(prefix='t45_r3_')
    try:
        generated = pipeline(tmp)
        for label, instance in (('class', Direct()), ('template', generated)):
            helper_grid(label, instance)
            algebra(label, instance)
    finally:
        shutil.rmtree(tmp, ignore_errors=True)


if __name__ == '__main__':
    main()
