"""
Equivalence demonstration for r3 (CellTranslator._set_cell_to_context: guard clause for already translated
cells, conditional expression -> if/elif/else, str.find('=') == 0 -> str.startswith('='), local alias).

1. Builds Excel objects directly from Python data (every kind of cell content: None, '', '=', ' =1', numbers,
   booleans, dates, odd strings, formulas, malformed/unsupported/circular formulas) and translates them cell by
   cell, by file and by entry point; records generated text, exceptions, state of the context after failures.
2. Does the same through real .xlsx workbooks (Parser/Executor), loading the class from file and as an object.
3. Finds the longest dependency chain that still translates.
Prints a deterministic digest.
"""
import datetime
import hashlib
import os
import tempfile

from openpyxl import Workbook

from excel2pycl import Parser, Executor, Cell, Context, Excel, CellTranslator, load_module

LINES = []


def out(*parts):
    LINES.append(' | '.join(str(p) for p in parts))


def describe(call):
    try:
        return 'ok', call()
    except BaseException as e:  # noqa
        return 'exc', f'{type(e).__module__}.{type(e).__name__}:{e.args!r}'


def sha(text):
    return hashlib.sha256(text.encode()).hexdigest()[:16]


CONTENTS = [
    None, '', ' ', '=', '==', '= ', ' =1', "'=1", '=1', '=1+2', '= 1 + 2 ', '=A1', 'x=1', 'a=b', '1=', 'text', 'it\'s',
    'say "hi"', 'back\\slash', 'line\nbreak', 'tab\there', 'юникод', '{braces}', '{{double}}', '%s', "'''", '"""',
    0, 1, -1, 1.5, -0.0, 1e300, 10 ** 30, True, False, datetime.datetime(2020, 1, 2, 3, 4, 5), datetime.date(2021, 2, 3),
    datetime.time(4, 5, 6), datetime.timedelta(days=1), '=SUM(A1:A3)', '=SUM(A1:A3', '=FOO(1)', '=1+', '=)', '=#REF!',
    '=IF(A1>1;"y";"n")', '=IF(A1>1)', '="a"&"b"', '=50%', '=1%%1', '=TRUE', '=Nope!A1', "='S 2'!A1", '=S3!B2',
    '=A1:A3', '=SUM(A:A)', '=SUM(A1:C)', '=LEFT("abc";2)', '=TODAY()', '=\n1', '=1\n', '=1e3', '="{x}"', '="\\"',
    '=A100', '=ZZ1', '=A0', '=VLOOKUP(1;A1:B3;2)', '=COUNTIFS(A1:A3;">1")', '=-A1', '=(1+2)*3', '=1 2',
]


def build_excel(rows_by_sheet, titles):
    data = [[list(row) for row in rows] for rows in rows_by_sheet]
    sizes = [{'last_column': max([len(r) for r in rows] or [0]), 'last_row': len(rows)} for rows in data]
    return Excel({'data': data, 'titles': titles, 'suspicious_cells': {}, 'sheets_size': sizes})


def new_context(excel):
    context = Context()
    context._titles = excel.get_titles()
    context._sheets_size = excel.get_sheets_size()
    return context


def context_state(context):
    return (sorted(context._cell_translations.items()), sorted(context._sub_cell_translations.items()),
            sorted(context._cells_in_progress.items()))


def evaluate(text, uids, label):
    namespace = {}
    kind, result = describe(lambda: exec(compile(text, '<generated>', 'exec'), namespace))
    if kind == 'exc':
        out(label, 'COMPILE/EXEC', result)
        return
    instance = namespace['ExcelInPython']()
    for uid in uids:
        kind, result = describe(lambda: instance.exec_function_in(uid))
        if kind == 'ok' and isinstance(result, datetime.datetime) and 'TODAY' in text:
            result = 'datetime'
        out(label, uid, kind, type(result).__name__, repr(result))


def direct():
    # one workbook per content: the content sits in D1, A1:A3 and B1:B3 hold data, two more sheets
    base = [[1, 10, 'abc'], [2, 20, 'b'], [3, 30, None]]
    for number, content in enumerate(CONTENTS):
        rows = [list(r) for r in base]
        rows[0].append(content)
        excel = build_excel([rows, [[7, 8]], [[None, None], [None, 5]]], ['Main', 'S 2', 'S3'])
        label = f'D{number}'
        out(label, 'content', repr(content))

        # a) the single cell, through translate (twice: the second call takes the "already translated" path)
        context = new_context(excel)
        for attempt in range(2):
            kind, result = describe(lambda: CellTranslator.translate(Cell(0, 3, 0), excel, context))
            out(label, 'translate', attempt, kind, result)
        out(label, 'state', context_state(context))
        kind, text = describe(context.build_class)
        out(label, 'class', kind, sha(text) if kind == 'ok' else text)
        if kind == 'ok':
            evaluate(text, ['_0_3_0', '_0_0_0', '_0_9_9'], label)

        # b) string identifiers (cell not handled yet) and an unknown title
        context = new_context(excel)
        for cell in (Cell('Main', 'D', '1'), Cell('Nope', 'D', '1'), Cell('Main', 'D', ''), Cell(0, 3, None)):
            kind, result = describe(lambda: CellTranslator.translate(cell, excel, context))
            out(label, 'translate-str', repr(cell), kind, result)

        # c) the whole file
        context = new_context(excel)
        kind, result = describe(lambda: CellTranslator.translate_file(excel, context))
        out(label, 'file', kind, result)
        out(label, 'file-state', sha(repr(context_state(context))), context_state(context)[2])
        kind, text = describe(context.build_class)
        out(label, 'file-class', kind, sha(text) if kind == 'ok' else text)
        if kind == 'ok':
            evaluate(text, [f'_0_{c}_{r}' for r in range(3) for c in range(4)] + ['_1_0_0', '_2_1_1', '_2_0_0'], label)

    # all contents in ONE sheet (column A rows 1..n), nothing referencing anything except fixed A-cells
    rows = [[content] for content in CONTENTS if not (isinstance(content, str) and content.startswith('='))]
    excel = build_excel([rows], ['Only'])
    context = new_context(excel)
    kind, result = describe(lambda: CellTranslator.translate_file(excel, context))
    out('ALL', 'file', kind, result)
    out('ALL', 'translations', context_state(context)[0])
    kind, text = describe(context.build_class)
    out('ALL', 'class', kind, sha(text) if kind == 'ok' else text)
    if kind == 'ok':
        evaluate(text, [f'_0_0_{r}' for r in range(len(rows) + 1)], 'ALL')

    # circular references and what is left in the context after the failure
    circles = {
        'self': [['=A1']],
        'pair': [['=B1', '=A1']],
        'triangle': [['=B1+1', '=C1*2', '=SUM(A1;1)']],
        'range-self': [['=SUM(A1:A3)'], [1], [2]],
        'no-circle-diamond': [['=B1+C1', '=D1', '=D1', 5]],
        'late': [[1, '=A1', '=D1', '=C1']],
    }
    for name, rows in circles.items():
        excel = build_excel([rows], ['C'])
        context = new_context(excel)
        kind, result = describe(lambda: CellTranslator.translate_file(excel, context))
        out('CIRC', name, 'file', kind, result)
        out('CIRC', name, 'state', context_state(context))
        # the same context is used again (history): translate the first cell once more
        kind, result = describe(lambda: CellTranslator.translate(Cell(0, 0, 0), excel, context))
        out('CIRC', name, 'again', kind, result)
        out('CIRC', name, 'state-again', context_state(context))
        kind, text = describe(context.build_class)
        out('CIRC', name, 'class', kind, sha(text) if kind == 'ok' else text)


def through_files(tmp):
    workbooks = {}

    wb = Workbook()
    ws = wb.active
    ws.title = 'Main'
    for row, values in enumerate([(1, 10, 'abc', '=A1+B1'), (2, 20, 'b', '=SUM(A1:A3)'), (3, 30, None, '=D1&C1'),
                                  (None, '', ' ', '=IF(A4=0;"empty";"full")'), (True, False, 1.25, "=Second!A1*2"),
                                  (datetime.datetime(2020, 5, 6), datetime.date(2020, 5, 7), 'it\'s "q"', '=YEAR(A6)')],
                                 start=1):
        for column, value in enumerate(values, start=1):
            if value is not None:
                ws.cell(row, column, value)
    second = wb.create_sheet('Second')
    second['A1'] = 21
    second['C3'] = '=Main!A1+A1'
    wb.create_sheet("Odd 'title' {x}")['B2'] = '=1+1'
    workbooks['good'] = wb

    for name, formula in [('unsupported', '=FOO(1)'), ('malformed', '=SUM(A1:A3'), ('truncated', '=SUM(A1:A3)1'),
                          ('circular', '=D1'), ('unknown-sheet', '=Nope!A1'), ('pct', '=1%%1'), ('eq-only', '=')]:
        wb = Workbook()
        ws = wb.active
        ws['A1'] = 1
        ws['B1'] = 'const'
        ws['D1'] = formula
        workbooks[name] = wb

    wb = Workbook()
    workbooks['empty'] = wb

    for name, wb in workbooks.items():
        path = os.path.join(tmp, f'{name}.xlsx')
        wb.save(path)
        for safety in (True, False):
            parser = Parser().set_excel_file_path(path)
            parser = parser.enable_safety_check() if safety else parser.disable_safety_check()
            kind, text = describe(parser.get_translation)
            out('F', name, safety, kind, sha(text) if kind == 'ok' else text.replace(tmp, '<tmp>'))
            if kind != 'ok':
                continue
            py = os.path.join(tmp, f'{name}_{safety}.py')
            parser.write_translation(py)
            kind, from_file = describe(lambda: Executor().set_executed_class(class_file=py))
            if kind != 'ok':
                out('F', name, safety, 'LOAD', from_file.replace(tmp, '<tmp>'))
                continue
            as_object = Executor().set_executed_class(class_object=load_module(py).ExcelInPython)
            out('F', name, safety, 'titles', from_file._titles, from_file._sheets_size)
            for sheet in from_file._titles:
                for executor in (from_file, as_object):
                    kind, cells = describe(lambda: executor.get_sheet(sheet))
                    out('F', name, safety, sheet, kind,
                        [[(type(c.value).__name__, repr(c.value)) for c in row] for row in cells]
                        if kind == 'ok' else cells)
            from_file.set_cells([Cell('Sheet' if 'Sheet' in from_file._titles else list(from_file._titles)[0],
                                      'A', '1', value=100)])
            for sheet in from_file._titles:
                kind, cells = describe(lambda: from_file.get_sheet(sheet))
                out('F', name, safety, sheet, 'after set_cells', kind,
                    [[repr(c.value) for c in row] for row in cells] if kind == 'ok' else cells)

        # entry point mode
        for entry in (Cell(0, 3, 0), Cell(0, 0, 0), Cell(0, 50, 50), Cell('Main', 'D', '3'), Cell('Nope', 'A', '1')):
            parser = Parser().set_excel_file_path(path).set_entrypoint_cell(entry).disable_safety_check()
            kind, text = describe(parser.get_translation)
            out('E', name, repr(entry), kind, sha(text) if kind == 'ok' else text.replace(tmp, '<tmp>'))


def chains():
    # A1 = A2+1, A2 = A3+1, ... : the translation recurses through the cells
    def translates(length):
        rows = [[f'=A{r + 2}+1'] for r in range(length)] + [[1]]
        excel = build_excel([rows], ['Chain'])
        context = new_context(excel)
        kind, result = describe(lambda: CellTranslator.translate_file(excel, context))
        return kind == 'ok', result

    low, high = 1, 1000
    assert translates(low)[0] and not translates(high)[0]
    while high - low > 1:
        middle = (low + high) // 2
        if translates(middle)[0]:
            low = middle
        else:
            high = middle
    out('CHAIN', low, high, str(translates(high)[1])[:80])


def main():
    direct()
    with tempfile.TemporaryDirectory() as tmp:
        through_files(tmp)
    chains()

    text = '\n'.join(LINES)
    print(f'lines: {len(LINES)}')
    print(f'sha256: {hashlib.sha256(text.encode()).hexdigest()}')
    shown = [line for line in LINES if not (line[0] == 'D' and ('state' in line or 'file-class' in line))]
    print('\n'.join(line[:400] for line in shown))


if __name__ == '__main__':
    main()
