"""Equivalence demo for r3 (Executor.set_cells: per-cell step extracted into a helper, merged dict -> dict.update).

Runs many histories of set_cells calls (constants, formula cells, blank cells, cells beyond the used range,
duplicates inside one call and across calls, invalid cells in the middle of a call, odd coordinates) against a
translated workbook; after every step prints every observable thing: values of all cells, the sheet sizes, the
stored overrides, exceptions.  Valid histories are also compared with a fresh translation of an edited workbook.
Output is deterministic.
"""
import datetime
import hashlib
import os
import re
import shutil
import tempfile

from openpyxl import Workbook

from excel2pycl import Parser, Executor, Cell

TMP = tempfile.mkdtemp(prefix='t12r3_')
COUNTER = [0]


def digest(text):
    return hashlib.sha256(text.encode('utf-8')).hexdigest()[:16]


def show(value):
    return re.sub(r'0x[0-9a-fA-F]+', '0x?', f'{type(value).__name__}:{value!r}')


def outcome(fn):
    try:
        return 'OK ' + show(fn())
    except BaseException as e:  # noqa
        return 'EXC ' + type(e).__name__ + ' ' + re.sub(r'0x[0-9a-fA-F]+', '0x?', str(e))[:200]


def build(sheets):
    COUNTER[0] += 1
    path = os.path.join(TMP, f'wb{COUNTER[0]}.xlsx')
    wb = Workbook()
    wb.remove(wb.active)
    for title, rows in sheets:
        ws = wb.create_sheet(title)
        for r, row in enumerate(rows, start=1):
            for c, value in enumerate(row, start=1):
                if value is not None:
                    ws.cell(row=r, column=c, value=value)
    wb.save(path)
    return path


def translate(sheets):
    COUNTER[0] += 1
    out = os.path.join(TMP, f'cls{COUNTER[0]}.py')
    Parser().set_excel_file_path(build(sheets)).write_translation(out)
    return out


SHEETS = [
    ('Main', [
        [1, 2, '=A1+B1', '=C1*2'],
        [10, None, '=SUM(A1:A3)', '=IF(B2="", "blank", B2)'],
        [100, '=Err!B1', '=IFERROR(B3, -1)', '=SUM(A:A)'],
        ['x', '=A4&"y"', '=Other!A1+A1', '=SUM(A1:F1)'],
    ]),
    ('Other', [
        ['=Main!A1*1000', '=Main!H9', '=SUM(Main!A1:D1)'],
    ]),
    ('Err', [
        ['=1/0', '=IFERROR(A1, -1)'],
        ['=A1+1'],
    ]),
]
CLASS_FILE = translate(SHEETS)


def snapshot(executor, label):
    print('--', label)
    print('sizes', outcome(lambda: executor._sheets_size), outcome(lambda: executor.get_executed_class().get_sheets_size()))
    print('overrides', outcome(lambda: [(k, v.title, v.column, v.row, v.value) for k, v in executor._cells.items()]))
    print('changed', executor._cells_have_been_changed)
    for sheet in (0, 'Other', 2):
        print('sheet', sheet, outcome(lambda: [[c.value for c in row] for row in executor.get_sheet(sheet)]))
    probes = []
    for t in (0, 1, 2):
        for c in range(9):
            for r in range(10):
                probes.append(outcome(lambda: executor.get_cell(Cell(t, c, r)).value))
    print('probes', digest('|'.join(probes)), sum(p.startswith('EXC') for p in probes))
    print('arguments', outcome(lambda: sorted(executor.get_executed_class()._arguments.items(), key=lambda i: i[0])))


def C(*args, **kwargs):
    return Cell(*args, **kwargs)


DT = datetime.datetime(2022, 3, 4)
HISTORIES = {
    'nothing': [[]],
    'constants': [[C(0, 0, 0, value=5)], [C('Main', 'B', '1', value=7)], [C(0, 0, 0, value=6)]],
    'last_in_one_call': [[C(0, 0, 0, value=1), C('Main', 'A', '1', value=2), C(0, 0, 0, value=3)]],
    'first_then_string_ids': [[C('Main', 'A', '1', value=50), C(0, 0, 0, value=60)], [C('Main', 'A', '1', value=70)]],
    'formula_cells': [[C(0, 2, 0, value=1000)], [C(0, 1, 2, value=9)], [C(0, 2, 0, value=None)]],
    'error_formula_overridden': [[C('Main', 'B', '3', value=4)], [C('Main', 'B', '3', value='#N/A')],
                                 [C('Err', 'A', '1', value=7)], [C(2, 0, 1, value=8), C(2, 0, 0, value=9)]],
    'blank_cells': [[C('Main', 'B', '2', value=33)], [C('Main', 'B', '2', value='')], [C('Main', 'B', '2', value=0)]],
    'beyond_range': [[C('Main', 'H', '9', value=8)], [C('Main', 'F', '1', value=4)], [C(1, 20, 30, value='far')],
                     [C('Main', 'A', '20', value=1)]],
    'types': [[C(0, 0, 0, value=True), C(0, 1, 0, value=2.5)], [C(0, 0, 0, value='12'), C(0, 1, 0, value=DT)],
              [C(0, 0, 0, value=None), C(0, 1, 0, value=-0.0)], [C(0, 0, 0, value=[1, 2])]],
    'cross_sheet': [[C('Other', 'A', '1', value=1)], [C('Main', 'A', '1', value=2)], [C(1, 0, 0, value=3)]],
    'same_size_edge': [[C(0, 3, 3, value=1)], [C(0, 4, 3, value=1)], [C(0, 3, 4, value=1)], [C(1, 2, 0, value=0)]],
    'tuple_and_generator': [(C(0, 0, 0, value=11), C(0, 1, 0, value=12)),
                            (c for c in [C(0, 0, 0, value=13), C(0, 7, 7, value=14)])],
    'unknown_title_in_the_middle': [[C(0, 5, 5, value=1), C('Nope', 'A', '1', value=2), C(0, 8, 8, value=3)],
                                    [C(0, 0, 0, value=4)]],
    'no_row_in_the_middle': [[C(0, 6, 6, value=1), C('Main', 'J', '', value=2), C(0, 9, 9, value=3)],
                             [C(0, 0, 0, value=4)]],
    'none_row_and_bad_sheet': [[C(5, 0, None, value=1)], [C(5, 0, 0, value=1)], [C(-1, 1, 1, value=5)],
                               [C(0, None, 0, value=1)]],
    'reused_cell_object': 'special',
    'float_and_bool_coordinates': [[C(0, 0, 3.0, value=1)], [C(0, 3.0, 0, value=2)], [C(0, True, True, value=3)],
                                   [C(0, 1, 9.5, value=4)]],
    'negative_coordinates': [[C(0, -1, -1, value=1)], [C(0, -5, 2, value=2)]],
    'not_a_cell': [[C(0, 0, 0, value=1), 'Main!A1']],
    'column_letters_lowercase': [[C('Main', 'a', '1', value=1)], [C('Main', 'A1', '1', value=1)],
                                 [C('Main', 'A', 'x', value=1)], [C('Main', '', '1', value=1)]],
}

for name, history in HISTORIES.items():
    print('==== history', name)
    executor = Executor().set_executed_class(class_file=CLASS_FILE)
    snapshot(executor, 'initial') if name == 'nothing' else None
    if history == 'special':
        cell = C('Main', 'A', '1', value=21)
        steps = [[cell], [cell]]
        print('set', outcome(lambda: executor.set_cells(steps[0]) is executor))
        snapshot(executor, 'first')
        cell.value = 22  # the stored override is the same object
        snapshot(executor, 'mutated without set_cells')
        print('set', outcome(lambda: executor.set_cells(steps[1]) is executor))
        snapshot(executor, 'second')
        asked = executor.get_cell(cell)
        print('asked is stored', asked is cell, asked.value)
        snapshot(executor, 'after get_cell wrote into the stored object')
        continue
    for number, step in enumerate(history):
        print('set', number, outcome(lambda: executor.set_cells(step) is executor))
        snapshot(executor, f'{name} step {number}')

print('==== two executors do not share overrides')
first = Executor().set_executed_class(class_file=CLASS_FILE)
second = Executor().set_executed_class(class_file=CLASS_FILE)
first.set_cells([C(0, 0, 0, value=1000), C(0, 10, 10, value=1)])
print(first.get_cell(C(0, 3, 0)).value, second.get_cell(C(0, 3, 0)).value, first._sheets_size, second._sheets_size)

print('==== set_cells before a class is set')
print(outcome(lambda: Executor().set_cells([])._cells_have_been_changed))
print(outcome(lambda: Executor().set_cells([C(0, 0, 0, value=1)])))
print(outcome(lambda: Executor().set_cells([C('Main', 'A', '1', value=1)])))

print('==== comparison with a fresh translation of the edited workbook')


def edited(overrides):
    sheets = [(title, [list(row) for row in rows]) for title, rows in SHEETS]
    for (t, c, r), value in overrides.items():
        rows = sheets[t][1]
        while len(rows) <= r:
            rows.append([])
        while len(rows[r]) <= c:
            rows[r].append(None)
        rows[r][c] = value
    return sheets


ORACLE = [
    [{(0, 0, 0): 5}],
    [{(0, 0, 0): 5}, {(0, 0, 0): 6, (0, 1, 0): 7}],
    [{(0, 2, 0): 1000}, {(0, 1, 2): 9}],
    [{(0, 1, 1): 33}, {(0, 1, 1): 'txt'}],
    [{(0, 7, 8): 8}, {(0, 5, 0): 4}],
    [{(1, 0, 0): 1}, {(0, 0, 0): 2}, {(0, 3, 2): 'gone'}],
    [{(0, 1, 2): 3.5, (0, 0, 3): 'q'}],
    [{(2, 0, 0): 4}, {(2, 0, 1): 'w', (2, 3, 3): 1}],
]
for history in ORACLE:
    executor = Executor().set_executed_class(class_file=CLASS_FILE)
    current = {}
    for step in history:
        current.update(step)
        executor.set_cells([C(t, c, r, value=v) for (t, c, r), v in step.items()])
        fresh = Executor().set_executed_class(class_file=translate(edited(current)))
        same = True
        line = []
        for t in (0, 1, 2):
            for c in range(9):
                for r in range(10):
                    a = outcome(lambda: executor.get_cell(C(t, c, r)).value)
                    b = outcome(lambda: fresh.get_cell(C(t, c, r)).value)
                    same = same and a == b
                    line.append(a)
        print(sorted(current.items()), 'equal to fresh translation:', same, digest('|'.join(line)))

shutil.rmtree(TMP, ignore_errors=True)
print('tmp removed:', not os.path.exists(TMP))
