"""Equivalence demo for r1 (Parser: when is the workbook translated again, and what comes back).

Drives one Parser object (and a few fresh ones) through a long history of setter calls,
repeated reads, failing translations and on-disk workbook changes.  Every step prints the
sha256 of the returned text (or the exception class and message), whether the returned
object is the very same str object as the previous result, how often the workbook was
actually re-read (Excel.parse / Context.build_class call counters) and the values of the
three "has been changed" flags.  The output must be identical before and after the refactoring.
"""
import warnings
warnings.simplefilter("ignore")
import hashlib
import os
import tempfile
import threading
import datetime

from openpyxl import Workbook

from excel2pycl import Parser, Executor, Cell
from excel2pycl.src.excel import Excel
from excel2pycl.src.context import Context

OUT = []


def emit(*parts):
    OUT.append(' '.join(str(p) for p in parts))


def digest(text):
    if text is None:
        return 'None'
    return hashlib.sha256(text.encode('utf-8')).hexdigest()[:20] + ':' + str(len(text))


# ---- call counters --------------------------------------------------------------------------
COUNTS = {'parse': 0, 'build': 0, 'is_safe': 0}
_orig_parse = Excel.parse.__func__
_orig_build = Context.build_class
_orig_is_safe = Excel.is_safe


def _parse(cls, path):
    COUNTS['parse'] += 1
    return _orig_parse(cls, path)


def _build(self):
    COUNTS['build'] += 1
    return _orig_build(self)


def _is_safe(self):
    COUNTS['is_safe'] += 1
    return _orig_is_safe(self)


Excel.parse = classmethod(_parse)
Context.build_class = _build
Excel.is_safe = _is_safe


# ---- workbooks ------------------------------------------------------------------------------
def book_a(path, bump=0):
    wb = Workbook()
    ws = wb.active
    ws.title = 'main'
    ws.append([1 + bump, 2, '=A1+B1', '=IF(C1>2, "big", "small")', '=SUM(A1:C1)'])
    ws.append([10.5, '', '=A2=B2', '=A2<>B2', '=SUM(A1:A2)+SUM(A1:A2)'])
    ws.append([datetime.date(2024, 1, 1), datetime.datetime(2024, 1, 1), '=A3=B3', '=A3<B3', '=MAX(A1:B2)'])
    other = wb.create_sheet('other')
    other.append(['=main!A1*2', '=VLOOKUP(2, main!A1:C2, 2, FALSE())', 'text'])
    other.append([None, 5, '=A2<B2'])
    wb.save(path)


def book_b(path):
    wb = Workbook()
    ws = wb.active
    ws.title = 'solo'
    ws.append([3, 4, '=A1*B1', '=COUNTBLANK(A1:B2)'])
    ws.append(['x', None, '=A2&B2', '=AND(A1>1, B1>1)'])
    wb.save(path)


def book_unsafe(path):
    wb = Workbook()
    ws = wb.active
    ws.append([1, 'os.system("echo hi")', '=A1+1'])
    ws.append(['__import__("os")', 2, '=B2*2'])
    wb.save(path)


def book_cycle(path):
    wb = Workbook()
    ws = wb.active
    ws.append(['=B1+1', '=A1+1', 5])
    wb.save(path)


def flags(parser):
    return ''.join('1' if getattr(parser, name) else '0' for name in (
        '_excel_file_path_has_been_changed', '_entrypoint_cell_has_been_changed', '_safety_check_has_been_changed'))


LAST = {'text': object()}
TMP = {'dir': '<unset>'}


def step(label, parser, action):
    before = dict(COUNTS)
    try:
        result = action()
        if isinstance(result, str) or result is None:
            same = result is LAST['text']
            LAST['text'] = result
            shown = 'text=' + digest(result) + ' same_object=' + str(same)
        elif isinstance(result, Parser):
            shown = 'parser self=' + str(result is parser) + ' stored=' + digest(result._translation)
        else:
            shown = 'value=' + repr(result)
    except Exception as exc:  # noqa
        shown = 'EXC ' + type(exc).__name__ + ': ' + str(exc).replace(TMP['dir'], '<TMP>')[:160]
    delta = {k: COUNTS[k] - before[k] for k in sorted(COUNTS)}
    emit(label, '|', shown, '| calls', delta, '| flags', flags(parser), '| stored', digest(parser._translation))


def read_file(path):
    with open(path, encoding='utf-8') as f:
        return f.read()


def main():
    tmp = tempfile.mkdtemp(prefix='r1demo')
    TMP['dir'] = tmp
    pa, pb, pu, pc = (os.path.join(tmp, n) for n in ('a.xlsx', 'b.xlsx', 'u.xlsx', 'c.xlsx'))
    book_a(pa)
    book_b(pb)
    book_unsafe(pu)
    book_cycle(pc)
    out1, out2 = os.path.join(tmp, 'o1.py'), os.path.join(tmp, 'o2.py')

    p = Parser()
    emit('fresh flags', flags(p), 'safety', p._safety_check)
    step('01 get without path', p, p.get_translation)
    step('02 get without path again', p, p.get_translation)
    step('03 write without path', p, lambda: p.write_translation(out1))
    emit('03b file created', os.path.exists(out1))
    step('04 set path a', p, lambda: p.set_excel_file_path(pa))
    step('05 get a', p, p.get_translation)
    text_a = p.get_translation()
    step('06 get a again', p, p.get_translation)
    step('07 get a third', p, p.get_translation)
    step('08 write a', p, lambda: p.write_translation(out1))
    emit('08b file equals returned', read_file(out1) == p.get_translation(), digest(read_file(out1)))

    # workbook changes on disk without any setter: the stored text is served
    book_a(pa, bump=5)
    step('09 disk changed, no setter', p, p.get_translation)
    step('10 same path set again', p, lambda: p.set_excel_file_path(pa))
    step('11 get after re-set', p, p.get_translation)
    emit('11b differs from first a', p.get_translation() != text_a)
    book_a(pa)
    step('12 enable safety (already on)', p, p.enable_safety_check)
    step('13 get', p, p.get_translation)
    emit('13b equals first a', p.get_translation() == text_a)
    step('14 disable safety', p, p.disable_safety_check)
    step('15 get', p, p.get_translation)
    emit('15b equals first a', p.get_translation() == text_a)

    # entry cell
    step('16 entry other!B1', p, lambda: p.set_entrypoint_cell(Cell('other', 'B', '1')))
    step('17 get entry', p, p.get_translation)
    text_entry = p.get_translation()
    emit('17b entry text smaller', len(text_entry) < len(text_a))
    step('18 get entry again', p, p.get_translation)
    step('19 entry main!E2', p, lambda: p.set_entrypoint_cell(Cell(0, 4, 1)))
    step('20 write entry', p, lambda: p.write_translation(out2))
    emit('20b file equals returned', read_file(out2) == p.get_translation(), digest(read_file(out2)))
    step('21 entry unknown sheet', p, lambda: p.set_entrypoint_cell(Cell('nosuch', 'A', '1')))
    step('22 get bad entry', p, p.get_translation)
    step('23 get bad entry again', p, p.get_translation)
    step('24 write bad entry', p, lambda: p.write_translation(out2))
    emit('24b out2 untouched', digest(read_file(out2)))
    step('25 entry None (whole file)', p, lambda: p.set_entrypoint_cell(None))
    step('26 get whole', p, p.get_translation)
    emit('26b equals first a', p.get_translation() == text_a)

    # other workbook, unsafe workbook, missing file, cycle
    step('27 path b', p, lambda: p.set_excel_file_path(pb))
    step('28 get b', p, p.get_translation)
    text_b = p.get_translation()
    step('29 path unsafe, safety off', p, lambda: p.set_excel_file_path(pu))
    step('30 get unsafe unchecked', p, p.get_translation)
    text_u = p.get_translation()
    step('31 enable safety', p, p.enable_safety_check)
    step('32 get unsafe checked', p, p.get_translation)
    step('33 get unsafe checked again', p, p.get_translation)
    emit('33b stored text still the unchecked one', p._translation == text_u)
    step('34 disable safety', p, p.disable_safety_check)
    step('35 get', p, p.get_translation)
    emit('35b equals unchecked', p.get_translation() == text_u)
    step('36 path missing', p, lambda: p.set_excel_file_path(os.path.join(tmp, 'missing.xlsx')))
    step('37 get missing', p, p.get_translation)
    step('38 get missing again', p, p.get_translation)
    step('39 path empty string', p, lambda: p.set_excel_file_path(''))
    step('40 get empty path', p, p.get_translation)
    step('41 path cycle', p, lambda: p.set_excel_file_path(pc))
    step('42 get cycle', p, p.get_translation)
    step('43 get cycle again', p, p.get_translation)
    step('44 path b back', p, lambda: p.set_excel_file_path(pb))
    step('45 get b', p, p.get_translation)
    emit('45b equals earlier b', p.get_translation() == text_b)

    # chained use, fresh parsers, order of setters
    q = Parser().set_excel_file_path(pa).disable_safety_check().set_entrypoint_cell(Cell('other', 'B', '1'))
    step('46 fresh chained entry', q, q.get_translation)
    emit('46b equals entry text of p', q.get_translation() == text_entry)
    r = Parser().set_entrypoint_cell(Cell('other', 'B', '1')).set_excel_file_path(pa)
    step('47 fresh other order', r, r.get_translation)
    emit('47b equal', r.get_translation() == text_entry)
    s = Parser()
    step('48 fresh write b', s, lambda: s.set_excel_file_path(pb).write_translation(out1))
    emit('48b file', digest(read_file(out1)), read_file(out1) == text_b)
    step('49 get after write', s, s.get_translation)
    step('50 write again', s, lambda: s.write_translation(out2))
    emit('50b file', digest(read_file(out2)), read_file(out2) == text_b)

    # threads: several parsers translating concurrently give the single-thread texts
    results = {}

    def work(index, path, entry):
        parser = Parser().set_excel_file_path(path)
        if entry is not None:
            parser.set_entrypoint_cell(entry)
        texts = [parser.get_translation() for _ in range(3)]
        results[index] = (digest(texts[0]), texts[0] is texts[1] is texts[2])

    jobs = [(i, (pa, pb)[i % 2], None if i % 3 else Cell(0, 2, 0)) for i in range(8)]
    threads = [threading.Thread(target=work, args=job) for job in jobs]
    for t in threads:
        t.start()
    for t in threads:
        t.join()
    for i in sorted(results):
        emit('thread', i, results[i])
    emit('total calls', dict(sorted(COUNTS.items())))

    # the translated classes compute
    ex = Executor().set_executed_class(class_file=out1)
    emit('exec b', [ex.get_cell(Cell(0, c, r)).value for r in range(2) for c in range(4)])
    Parser().set_excel_file_path(pa).write_translation(out2)
    ex = Executor().set_executed_class(class_file=out2)
    emit('exec a', [repr(ex.get_cell(Cell(0, c, r)).value) for r in range(3) for c in range(5)])
    emit('exec a other', [repr(ex.get_cell(Cell(1, c, r)).value) for r in range(2) for c in range(3)])

    print('\n'.join(OUT))
    print('DIGEST', hashlib.sha256('\n'.join(OUT).encode()).hexdigest())


if __name__ == '__main__':
    main()
