"""Equivalence demo for r2: translation of expressions with the percent operator (x% == x/100 to 15 digits).

Run as: PYTHONPATH=<tree> /venv/bin/python demo.py
For every formula: the generated method text for the cell, and the values computed for many inputs.
"""
import hashlib
import math
import os
import tempfile
import warnings

warnings.simplefilter('ignore')

from openpyxl import Workbook  # noqa: E402

from excel2pycl import Parser, Executor, Cell  # noqa: E402

FORMULAS = [
    '=A1%', '=B1%', '=50%', '=12.5%', '=0%', '=100%', '=1%', '=7%', '=33.3333333333333%', '=0.1%',
    '=A1%+B1', '=A1%-B1', '=A1%*B1', '=A1%/B1', '=A1%^2', '=A1%&B1', '=A1%&"x"', '="x"&A1%',
    '=A1+B1%', '=A1-B1%', '=A1*B1%', '=A1/B1%', '=A1&B1%',
    '=A1%+B1%', '=A1%*B1%', '=A1%-B1%+C1%', '=A1%+B1%+C1%', '=A1%*B1*C1%', '=A1+B1%+C1',
    '=50%*A1', '=10%+20%', '=10%+20%+30%', '=15%*200', '=200*15%', '=1-5%', '=(1-5%)*A1',
    '=(A1+B1)%', '=(A1)%', '=A1%%', '=A1% %', '=%A1', '=A1 %',
    '=(A1%)', '=(A1%)+B1', '=(A1%+B1)*C1', '=C1*(A1%+B1)', '=(A1%)*(B1%)', '=-A1%', '=-(A1%)', '=+A1%',
    '=A1%=B1%', '=A1%>B1', '=A1%<B1%', '=A1%>=0.1', '=A1%<=12.5%', '=A1%<>B1%', '=A1=B1%', '=10%=0.1',
    '=30%=0.3', '=10%+20%=0.3', '=0.1+0.2=30%', '=7%=0.07', '=29%=0.29',
    '=IF(A1%>0.1,"big","small")', '=IF(A1%>B1%,A1%,B1%)', '=ROUND(A1%,2)', '=ROUND(A1%*B1,3)',
    '=ROUNDUP(A1%,1)', '=ROUNDDOWN(B1%,1)', '=SUM(A1%,B1%)', '=SUM(A1:C1)%', '=MAX(A1%,B1%)', '=MIN(A1,B1)%',
    '=SUM(A1:C1)*10%', '=10%*SUM(A1:C1)', '=AVERAGE(A1:C1)*A1%', '=IF(A1>B1,A1,B1)%',
    '=A1%+ROUND(B1%,2)', '=IFERROR(A1%/0,C1%)', '=AND(A1%>0,B1%>0)', '=OR(A1%>1,B1%>1)',
    '=A1*B1', '=A1+B1', '=A1', '=A1&B1', '=A1>B1', '=-A1', '=(A1+B1)*C1', '=(A1)', '=(A1+B1)',
]

INPUTS = [
    (12.5, 3, 40), (0, 0, 0), (-12.5, 7, 1), (1, 3, 7), (29, 57, 58), (0.07, 1e-7, 1e15), (1e300, 1e-300, 3),
    (110, 33, 1.1), (123456789012345, 0.1, 0.2), (True, False, 2), ('12', 3, 4), (None, 3, 4), ('abc', 1, 2),
    (float('inf'), 1, 2), (float('nan'), 1, 2), (5e-324, 2, 3), (14.35, 0.57, 4.35), (-0.0, 2, 3),
]


def show(value):
    if isinstance(value, float):
        return 'float:' + (value.hex() if math.isfinite(value) else repr(value))
    return f'{type(value).__name__}:{value!r}'


def main():
    lines = []
    with tempfile.TemporaryDirectory() as tmp:
        for number, formula in enumerate(FORMULAS):
            xlsx = os.path.join(tmp, f'f{number}.xlsx')
            out_py = os.path.join(tmp, f'f{number}.py')
            wb = Workbook()
            ws = wb.active
            ws['A1'], ws['B1'], ws['C1'] = 12.5, 3, 40
            ws['D1'] = formula
            wb.save(xlsx)
            try:
                parser = Parser().set_excel_file_path(xlsx)
                text = parser.get_translation()
                parser.write_translation(out_py)
            except BaseException as error:  # noqa
                lines.append(f'{formula!r}: translation raises {type(error).__name__}')
                continue
            marker = '    def _0_3_0(self):\n'
            body = text[text.index(marker) + len(marker):].split('\n\n')[0].strip()
            lines.append(f'{formula!r}: text {body}')
            lines.append(f'{formula!r}: whole translation sha256 {hashlib.sha256(text.encode()).hexdigest()}')
            try:
                executor = Executor().set_executed_class(class_file=out_py)
            except BaseException as error:  # noqa
                lines.append(f'{formula!r}: load raises {type(error).__name__}')
                continue
            for a, b, c in INPUTS:
                executor.set_cells([Cell(0, 0, 0, value=a), Cell(0, 1, 0, value=b), Cell(0, 2, 0, value=c)])
                try:
                    outcome = show(executor.get_cell(Cell(0, 3, 0)).value)
                except BaseException as error:  # noqa
                    outcome = f'raises:{type(error).__name__}'
                lines.append(f'{formula!r} [{a!r},{b!r},{c!r}] -> {outcome}')

        # a sweep of literal percentages: x% must be x/100 to 15 significant digits
        xlsx = os.path.join(tmp, 'sweep.xlsx')
        out_py = os.path.join(tmp, 'sweep.py')
        wb = Workbook()
        ws = wb.active
        literals = [str(i) for i in range(0, 131)] + [f'{i}.{j}' for i in (0, 1, 7, 14, 28, 57, 99) for j in (1, 5, 25, 35, 999)]
        for row, literal in enumerate(literals, start=1):
            ws.cell(row=row, column=1, value=f'={literal}%')
            ws.cell(row=row, column=2, value=f'={literal}%*100')
            ws.cell(row=row, column=3, value=f'={literal}%={literal}/100')
        wb.save(xlsx)
        Parser().set_excel_file_path(xlsx).write_translation(out_py)
        executor = Executor().set_executed_class(class_file=out_py)
        for row, literal in enumerate(literals):
            values = [show(executor.get_cell(Cell(0, column, row)).value) for column in range(3)]
            lines.append(f'sweep {literal}%: {values}')

    text = '\n'.join(lines)
    print(text)
    print('TOTAL-DIGEST', hashlib.sha256(text.encode()).hexdigest())


if __name__ == '__main__':
    main()
