"""Equivalence demo for r3: CellTranslator (entry-point closure, constants, formulas, cycle rejection).

Workbooks with dependencies through every reference form and across sheets are translated as a whole
and from every cell as an entry point; the generated functions, the set of contained cells, computed values
(entry vs whole) are printed.  Cyclic workbooks (self reference, 2- and 3-cycles, cycles through ranges,
matrices, other sheets, functions) are translated from many entry points; exception class names and messages
are printed, as well as the state of a directly driven Context after a rejected translation and the
behaviour of a re-used Parser facade.
"""
import datetime
import hashlib
import os
import re
import shutil
import sys
import tempfile

from openpyxl import Workbook

from excel2pycl import Parser, Executor, Cell, Excel, Context, CellTranslator

LINES = []


def out(line):
    LINES.append(line)


def show(value):
    return f'{type(value).__name__}:{value!r}'


def attempt(function):
    try:
        return show(function())
    except BaseException as error:  # noqa
        return f'!{type(error).__name__}:{error}'


FUNCTION_RE = re.compile(r'^    def (_\d+_\d+_\d+(?:_\d+)?)\(self\):\n        return (.*)$', re.M)


def functions_of(text):
    return FUNCTION_RE.findall(text)


def save(path, sheets):
    wb = Workbook()
    first = True
    for title, cells in sheets:
        ws = wb.active if first else wb.create_sheet(title)
        ws.title = title
        first = False
        for address, value in cells.items():
            ws[address] = value
    wb.save(path)
    wb.close()


ACYCLIC = [
    ('Main', {
        'A1': 10, 'A2': 2.5, 'A3': -4, 'A4': 'text', 'A5': True, 'A6': datetime.datetime(2024, 2, 29, 12, 30),
        'A7': 'it\'s "quoted"', 'A8': 0, 'A9': 1e-7, 'A10': 123456789012345678,
        'B1': '=A1+A2', 'B2': '=B1*2', 'B3': '=SUM(A1:A3)', 'B4': '=SUM(A1:B3)', 'B5': '=Other!A1+\'My Data\'!B2',
        'B6': '=IF(B1>B2,B3,B4)', 'B7': '=VLOOKUP(2,Other!A1:B3,2,0)', 'B8': '=SUM(Other!A:A)', 'B9': '=A4&A7',
        'B10': '=B9&B5', 'B11': '=SUMIF(Other!A1:A3,">1",Other!B1:B3)', 'B12': '=COUNTIFS(A1:A3,">0")',
        'B13': '=INDEX(Other!A1:B3,2,2)', 'B14': '=MATCH(2,Other!A1:A3,0)', 'B15': '=B14+B13+B12+B11',
        'B16': '=A20', 'B17': '=Z99+1', 'B18': '=SUM(A1:C1)', 'B19': '=YEAR(A6)', 'B20': '=B1+B1+B1',
        'C1': '=B20+B19', 'C2': '=C1%', 'C3': '=ROUND(C2,1)', 'C4': '=MAX(B1:B4)', 'C5': '=MIN(A1:A3,B1:B2)',
        'C6': '=AVERAGE(Other!B1:B3)', 'C7': '=IFERROR(A4+1,B2)', 'C8': '=AND(A5,B1>0)', 'C9': '=OR(A8,B1<0)',
        'C10': '=LEFT(A4,2)&RIGHT(A7,3)', 'D1': "='My Data'!A1", 'D2': '=\'My Data\'!A1+Other!B3+C1',
        'D3': '=SUM(B3:B3)', 'D4': '=$A$1+A$2+$A3', 'D5': '=Main!A1+Main!B1',
    }),
    ('Other', {
        'A1': 1, 'A2': 2, 'A3': 3, 'B1': '=A1*10', 'B2': '=A2*Main!A1', 'B3': '=B1+B2', 'C1': "='My Data'!B2",
        'C2': '=Main!B2',
    }),
    ('My Data', {
        'A1': 7, 'A2': '=A1', 'B2': '=A1+A2', 'B3': '=Other!C1+Other!B3',
    }),
]

CYCLIC = [
    ('Cyc', {
        'A1': '=A1', 'A2': '=A2+1', 'B1': '=B2', 'B2': '=B1', 'C1': '=C2', 'C2': '=C3', 'C3': '=C1+1',
        'D1': '=SUM(D1:D3)', 'D2': 1, 'D3': 2, 'E1': '=SUM(E2:F3)', 'E2': 1, 'F3': '=E1', 'G1': '=Far!A1',
        'H1': '=IF(H2>0,H3,1)', 'H2': 5, 'H3': '=H1', 'I1': '=VLOOKUP(1,I2:J3,2,0)', 'I2': 1, 'J2': '=I1',
        'K1': '=K2+L1', 'K2': 3, 'L1': '=M1*2', 'M1': 4, 'N1': '=K1+N2', 'N2': '=N1%', 'O1': 5, 'O2': '=O1+P2',
        'P2': '=SUM(O:O)', 'Q1': '=ROUND(Q1,0)', 'R1': '=R2', 'R2': '=R3', 'R3': '=R4', 'R4': '=R2',
        'S1': '=K1+M1', 'S2': '=S1+K2', 'T1': '=IFERROR(T1,0)', 'U1': '=U2&"x"', 'U2': '=LEFT(U1,1)',
    }),
    ('Far', {
        'A1': '=Further!A1+1', 'B1': 5, 'B2': '=B1+1',
    }),
    ('Further', {
        'A1': '=Cyc!G1', 'B1': '=Far!B2',
    }),
]


def cells_of(sheets):
    for index, (title, cells) in enumerate(sheets):
        for address in cells:
            column = re.match(r'[A-Z]+', address).group()
            row = address[len(column):]
            yield index, title, column, row, address


def acyclic_part(tmp):
    path = os.path.join(tmp, 'acyclic.xlsx')
    save(path, ACYCLIC)
    whole_text = Parser().set_excel_file_path(path).get_translation()
    out(f'acyclic whole sha256={hashlib.sha256(whole_text.encode()).hexdigest()}')
    whole_functions = functions_of(whole_text)
    for name, code in whole_functions:
        out(f'acyclic whole def {name}: {code}')
    whole_py = os.path.join(tmp, 'acyclic_whole.py')
    with open(whole_py, 'w', encoding='utf-8') as f:
        f.write(whole_text)
    whole = Executor().set_executed_class(class_file=whole_py)
    whole_codes = dict(whole_functions)

    for index, title, column, row, address in cells_of(ACYCLIC):
        parser = Parser().set_excel_file_path(path).set_entrypoint_cell(Cell(title, column, row))
        text = attempt(parser.get_translation)
        if text.startswith('!'):
            out(f'acyclic entry {title}!{address} {text}')
            continue
        text = parser.get_translation()
        functions = functions_of(text)
        names = [name for name, _ in functions]
        same_code = all(whole_codes.get(name) is not None for name in names)
        out(f'acyclic entry {title}!{address} sha256={hashlib.sha256(text.encode()).hexdigest()} '
            f'functions={",".join(names)} all_in_whole={same_code}')
        for name, code in functions:
            out(f'   def {name}: {code}')
        entry_py = os.path.join(tmp, f'acyclic_{index}_{address}.py')
        parser.write_translation(entry_py)
        entry = Executor().set_executed_class(class_file=entry_py)
        entry_value = attempt(lambda: entry.get_cell(Cell(title, column, row)).value)
        whole_value = attempt(lambda: whole.get_cell(Cell(title, column, row)).value)
        out(f'   value entry={entry_value} whole={whole_value} equal={entry_value == whole_value}')
        # every contained cell computes the same value as in the whole translation
        mismatches = []
        for name in names:
            if name.count('_') != 3:
                continue  # numbered sub-expressions of a cell, not cells
            a, b = attempt(lambda: entry.get_executed_class().exec_function_in(name)), \
                attempt(lambda: whole.get_executed_class().exec_function_in(name))
            if a != b:
                mismatches.append(name)
        out(f'   contained mismatches={mismatches}')

    # overridden inputs propagate the same way
    whole.set_cells([Cell('Main', 'A', '1', value=100), Cell('Other', 'A', '2', value=-2)])
    for index, title, column, row, address in cells_of(ACYCLIC):
        out(f'acyclic override {title}!{address}={attempt(lambda: whole.get_cell(Cell(title, column, row)).value)}')


def cyclic_part(tmp):
    path = os.path.join(tmp, 'cyclic.xlsx')
    save(path, CYCLIC)
    out('cyclic whole ' + attempt(lambda: len(Parser().set_excel_file_path(path).get_translation())))
    out('cyclic whole (no safety check) ' + attempt(
        lambda: len(Parser().disable_safety_check().set_excel_file_path(path).get_translation())))
    for index, title, column, row, address in cells_of(CYCLIC):
        parser = Parser().set_excel_file_path(path).set_entrypoint_cell(Cell(title, column, row))
        result = attempt(parser.get_translation)
        if result.startswith('!'):
            out(f'cyclic entry {title}!{address} {result}')
            # asking again gives the same answer
            out(f'cyclic entry {title}!{address} again {attempt(parser.get_translation)}')
            continue
        text = parser.get_translation()
        functions = functions_of(text)
        out(f'cyclic entry {title}!{address} ok sha256={hashlib.sha256(text.encode()).hexdigest()}')
        for name, code in functions:
            out(f'   def {name}: {code}')
        entry_py = os.path.join(tmp, f'cyclic_{index}_{address}.py')
        parser.write_translation(entry_py)
        entry = Executor().set_executed_class(class_file=entry_py)
        out(f'   value={attempt(lambda: entry.get_cell(Cell(title, column, row)).value)}')

    # a re-used facade: rejected entry point, then an acyclic one, then the cyclic one again
    parser = Parser().set_excel_file_path(path)
    for title, column, row in (('Cyc', 'B', '1'), ('Cyc', 'S', '2'), ('Cyc', 'C', '3'), ('Far', 'B', '2'),
                               ('Further', 'A', '1'), ('Further', 'B', '1')):
        parser.set_entrypoint_cell(Cell(title, column, row))
        result = attempt(parser.get_translation)
        if not result.startswith('!'):
            result = 'ok ' + ','.join(name for name, _ in functions_of(parser.get_translation()))
        out(f'facade {title}!{column}{row}: {result}')

    # the translator driven directly: state of the context after accepted and rejected translations
    excel = Excel.parse(path)
    context = Context()
    context._titles = excel.get_titles()
    context._sheets_size = excel.get_sheets_size()
    for title, column, row in (('Cyc', 'S', '2'), ('Cyc', 'C', '1'), ('Cyc', 'K', '1'), ('Cyc', 'E', '1'),
                               ('Cyc', 'C', '2'), ('Far', 'B', '2'), ('Cyc', 'G', '1'), ('Cyc', 'S', '2'),
                               ('Cyc', 'O', '2'), ('Cyc', 'N', '1')):
        cell = Cell(title, column, row)
        out(f'direct {title}!{column}{row}: {attempt(lambda: CellTranslator.translate(cell, excel, context))}')
        out(f'   translated={list(context._cell_translations.items())}')
        out(f'   sub={list(context._sub_cell_translations.items())}')
        out(f'   in_progress={list(context._cells_in_progress.items())}')
    out('direct build ' + hashlib.sha256(context.build_class().encode()).hexdigest())

    # cells addressed in unusual ways
    context = Context()
    for cell in (Cell(0, 0, 0), Cell('Cyc', 'ZZ', '1000'), Cell(5, 0, 0), Cell('Nope', 'A', '1'), Cell(0, 0, None),
                 Cell(0, 'A', 1), Cell('Cyc', 'D', '2'), Cell(1, 1, 0), Cell(-1, 0, 0), Cell(0, -1, 0)):
        out(f'odd {cell}: {attempt(lambda: CellTranslator.translate(cell, excel, context))} value={cell.value!r}')
    out(f'odd translated={list(context._cell_translations.items())} in_progress={list(context._cells_in_progress)}')


def constants_part(tmp):
    path = os.path.join(tmp, 'constants.xlsx')
    values = [0, 1, -1, 1.5, -0.0, 1e100, 1e-100, 2 ** 60, True, False, 'a', "'", '"', '\\', 'line\nbreak', 'юникод',
              ' =not formula', '=1+1', '="=x"', '==1', datetime.datetime(2020, 1, 1), datetime.date(2021, 5, 6),
              datetime.time(7, 8, 9), '{braces}', '%s', 'None', 'self.EmptyCell()', '#N/A', '#DIV/0!']
    wb = Workbook()
    ws = wb.active
    ws.title = 'K'
    for row, value in enumerate(values, start=1):
        ws.cell(row=row, column=1, value=value)
        ws.cell(row=row, column=3, value=f'=A{row}')
    wb.save(path)
    wb.close()
    text = attempt(lambda: Parser().disable_safety_check().set_excel_file_path(path).get_translation())
    if text.startswith('!'):
        out(f'constants whole {text}')
    for row in range(len(values)):
        for column in (0, 1, 2):
            parser = Parser().disable_safety_check().set_excel_file_path(path).set_entrypoint_cell(Cell(0, column, row))
            result = attempt(parser.get_translation)
            if result.startswith('!'):
                out(f'constants {column},{row} {result}')
                continue
            for name, code in functions_of(parser.get_translation()):
                out(f'constants {column},{row} def {name}: {code}')
            entry_py = os.path.join(tmp, f'constants_{column}_{row}.py')
            parser.write_translation(entry_py)
            value = attempt(lambda: Executor().set_executed_class(class_file=entry_py).get_cell(
                Cell(0, column, row)).value)
            out(f'constants {column},{row} value={value}')


def main():
    tmp = tempfile.mkdtemp(prefix='t26_r3_')
    try:
        acyclic_part(tmp)
        cyclic_part(tmp)
        constants_part(tmp)
    finally:
        shutil.rmtree(tmp, ignore_errors=True)
    text = '\n'.join(LINES)
    print(text)
    print('TOTAL', len(LINES), hashlib.sha256(text.encode()).hexdigest())
    return 0


if __name__ == '__main__':
    sys.exit(main())
