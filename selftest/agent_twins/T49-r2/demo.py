"""Equivalence demo for r2 (Context.set_sub_cell / _get_divided_sub_cell_translations / build_class).

Part 1 drives Context directly with long deterministic pseudo-random histories (duplicate codes,
many cells, odd code strings, bad cells). Part 2 translates workbooks end to end (whole file and
several entry points, twice, in threads, in other processes with other hash seeds) and digests the
generated text and the values computed from it.
"""
import hashlib
import os
import random
import shutil
import subprocess
import sys
import tempfile
import threading
import warnings

warnings.filterwarnings('ignore')  # the runtime template triggers a SyntaxWarning that names the tree path

from openpyxl import Workbook  # noqa: E402

from excel2pycl import Parser, Executor, Cell  # noqa: E402
from excel2pycl.src.context import Context  # noqa: E402


def sha(text):
    return hashlib.sha256(text.encode('utf-8')).hexdigest()[:16] + ':' + str(len(text))


def attempt(label, action):
    try:
        result = action()
    except BaseException as error:  # noqa
        print(label, 'EXC', type(error).__name__, repr(str(error))[:200])
        return None
    print(label, 'OK', repr(result) if not isinstance(result, str) or len(result) < 200 else sha(result))
    return result


def functions_part(text):
    """The generated methods only (after the fixed runtime part)."""
    marker = "        return '#VALUE!'\n\n"
    return text[text.rindex(marker) + len(marker):]


def direct_part():
    rnd = random.Random(4949)
    codes = ['1', '2', "'a'", 'self._sum([1,2])', '{}', '{0}', '{{x}}', '[' + ','.join('1' * 5) + ']', '',
             'lambda x: x', "self._cell_preprocessor('_0_0_0')", '1 ', ' 1', '\n', 'é', '%s', '\\n']

    context = Context()
    print('empty divided', context._get_divided_sub_cell_translations())
    print('empty class', sha(context.build_class()), repr(functions_part(context.build_class())))

    log = []
    cells = [Cell(t, c, r) for t in range(2) for c in range(3) for r in range(3)]
    for step in range(600):
        cell = rnd.choice(cells)
        kind = rnd.random()
        if kind < 0.7:
            code = rnd.choice(codes) if rnd.random() < 0.8 else 'g' + str(rnd.randrange(40))
            log.append(('sub', cell.uid, context.set_sub_cell(cell, code)))
        elif kind < 0.85:
            log.append(('cell', cell.uid, context.set_cell(cell, rnd.choice(codes))))
        elif kind < 0.95:
            log.append(('get', cell.uid, context.get_cell(cell)))
        else:
            text = context.build_class()
            log.append(('build', sha(text), sha(functions_part(text))))
    print('history digest', sha(repr(log)), len(log))
    for entry in log[:25]:
        print('  ', entry)
    print('sub keys', list(context._sub_cell_translations))
    print('sub sizes', [len(v) for v in context._sub_cell_translations.values()])
    divided = context._get_divided_sub_cell_translations()
    print('divided', type(divided).__name__, len(divided), sha(repr(list(divided.items()))))
    print('divided head', list(divided.items())[:6])
    first, second = context.build_class(), context.build_class()
    print('build twice', first == second, sha(first))
    print('functions', sha(functions_part(first)))
    print(functions_part(first)[:600])

    # the same code for the same cell is numbered once, for different cells separately
    context = Context()
    a, b = Cell(0, 0, 0), Cell(0, 1, 0)
    print([context.set_sub_cell(cell, code) for cell, code in
           [(a, 'x'), (a, 'y'), (a, 'x'), (b, 'x'), (b, 'x'), (a, 'z'), (a, 'y'), (b, 'y'), (a, ''), (a, '')]])
    print(context._sub_cell_translations)
    print(list(context._get_divided_sub_cell_translations().items()))
    # a cell translation and sub cell translations together, insertion order kept
    context.set_cell(b, '2')
    context.set_cell(a, '1')
    context.set_sub_cell(Cell(3, 0, 0), 'late')
    print(functions_part(context.build_class()))
    context._titles = {'A': 0, 'é"\'': 1}
    context._sheets_size = [{'last_column': 2, 'last_row': 1}]
    text = context.build_class()
    print('titles line', [line for line in text.splitlines() if 'self._titles: Dict' in line or
                          'self._sheets_size: List' in line])

    # bad cells
    context = Context()
    attempt('sub str cell', lambda: context.set_sub_cell(Cell('S', 'A', '1'), 'x'))
    attempt('sub none row', lambda: context.set_sub_cell(Cell(0, 0, None), 'x'))
    print(context._sub_cell_translations)
    handled = Cell(0, 0, None, _handled_identifiers=True)
    attempt('sub handled any row', lambda: context.set_sub_cell(handled, 'x'))
    attempt('sub handled any row again', lambda: context.set_sub_cell(handled, 'x'))
    attempt('sub handled any row other', lambda: context.set_sub_cell(handled, 'y'))
    print(context._sub_cell_translations, context._get_divided_sub_cell_translations())
    # non-string codes are compared by equality too
    attempt('int code', lambda: context.set_sub_cell(Cell(1, 1, 1), 1))
    attempt('float code', lambda: context.set_sub_cell(Cell(1, 1, 1), 1.0))
    attempt('bool code', lambda: context.set_sub_cell(Cell(1, 1, 1), True))
    attempt('other code', lambda: context.set_sub_cell(Cell(1, 1, 1), 2))
    print(context._sub_cell_translations)
    attempt('circular', lambda: (context.start_cell_translation(Cell(0, 0, 0)),
                                 context.start_cell_translation(Cell(0, 0, 0))))


def build_book(path):
    wb = Workbook()
    ws = wb.active
    ws.title = 'Data'
    rows = [(1, 2.5, 'x', True), (4, None, '7', False), (-3, 0, '', 10), (8, 9, 'abc', 2), (None, None, None, None),
            (5, 5, 5, 5)]
    for row, values in enumerate(rows, 1):
        for column, value in enumerate(values, 1):
            ws.cell(row=row, column=column, value=value)
    formulas = [
        '=SUM(A1:A4)', '=SUM(A1:A4)+SUM(A1:A4)', '=SUM(A1:D4, 5)', '=AVERAGE(A1:B4)', '=MIN(A1:A4, B1:B4)',
        '=MAX(A:A)', '=COUNT(A1:D4)', '=COUNTBLANK(A1:D6)', '=IF(AND(A1>0, B1>0), F1+F2, F3)',
        "=SUM(Other!A1:B2) + 'Other'!C1", '=OR(A3>0, D1)', '=SUM(A1:A4, A1:A4)', '=SUM(A1:B2)+SUM(B1:C2)+SUM(A1:B2)',
        '=SUMIF(A1:A6, ">0", B1:B6)', '=VLOOKUP(4, A1:D6, 2, FALSE)', '=MAX(A1:D1, A6:D6)*MIN(A6:D6)',
        '=ROUND(AVERAGE(A1:A4, B1:B4), 2)', '=COUNT(A1:A6, B1:B6, 3, D4)', '=F1&"-"&F2', '=IFERROR(F4/0, -1)',
    ]
    for index, formula in enumerate(formulas, 1):
        ws.cell(row=index, column=6, value=formula)
    other = wb.create_sheet('Other')
    for row, values in enumerate([(10, 20, 30), (40, 'q', None)], 1):
        for column, value in enumerate(values, 1):
            other.cell(row=row, column=column, value=value)
    other['E1'] = '=SUM(A1:C2)*2'
    other['E2'] = '=SUM(Data!A1:A4)+SUM(Data!A1:A4)+E1'
    wb.save(path)
    return len(formulas)


CHILD = '''
import hashlib, sys
from excel2pycl import Parser, Cell
texts = [Parser().set_excel_file_path(sys.argv[1]).get_translation(),
         Parser().set_excel_file_path(sys.argv[1]).set_entrypoint_cell(Cell(0, 5, 12)).get_translation()]
print(' '.join(hashlib.sha256(t.encode('utf-8')).hexdigest()[:16] for t in texts))
'''


def workbook_part():
    tmp = tempfile.mkdtemp(prefix='t49r2_')
    try:
        xlsx = os.path.join(tmp, 'book.xlsx')
        count = build_book(xlsx)
        whole = Parser().set_excel_file_path(xlsx).get_translation()
        print('whole', sha(whole), sha(functions_part(whole)))
        print(functions_part(whole))
        out_py = os.path.join(tmp, 'whole.py')
        Parser().set_excel_file_path(xlsx).write_translation(out_py)
        with open(out_py, encoding='utf-8') as f:
            print('file equals text', f.read() == whole)
        executor = Executor().set_executed_class(class_file=out_py)
        print('values', [repr(executor.get_cell(Cell(0, 5, row)).value) for row in range(count)],
              [repr(executor.get_cell(Cell(1, 4, row)).value) for row in range(2)])
        executor.set_cells([Cell(0, 0, 0, value=100), Cell('Data', 'B', '2', value=1.5)])
        print('values after set_cells', [repr(executor.get_cell(Cell(0, 5, row)).value) for row in range(count)])

        for row in range(count):
            parser = Parser().set_excel_file_path(xlsx).set_entrypoint_cell(Cell(0, 5, row))
            text = parser.get_translation()
            py = os.path.join(tmp, f'entry{row}.py')
            parser.write_translation(py)
            value = Executor().set_executed_class(class_file=py).get_cell(Cell('Data', 'F', str(row + 1))).value
            print('entry', row, sha(functions_part(text)), functions_part(text).count('def '), repr(value))

        results = {}

        def work(index):
            parser = Parser().set_excel_file_path(xlsx)
            if index % 2:
                parser.set_entrypoint_cell(Cell(0, 5, 12))
            results[index] = sha(parser.get_translation())

        threads = [threading.Thread(target=work, args=(i,)) for i in range(6)]
        for thread in threads:
            thread.start()
        for thread in threads:
            thread.join()
        print('threads', [results[i] for i in sorted(results)])
        for seed in ['0', '7', 'random']:
            done = subprocess.run([sys.executable, '-W', 'ignore', '-c', CHILD, xlsx],
                                  env=dict(os.environ, PYTHONHASHSEED=seed), capture_output=True, text=True)
            print('process seed', seed, done.returncode, done.stdout.strip(), 'Traceback' in done.stderr)
    finally:
        shutil.rmtree(tmp, ignore_errors=True)


if __name__ == '__main__':
    direct_part()
    workbook_part()
