"""Equivalence demo for r4 (Context: bookkeeping of cell / sub-cell translations and class assembly).

Drives Context objects directly through long pseudo-random (fixed seed) sequences of set_cell /
set_sub_cell / get_cell / start_cell_translation / finish_cell_translation / build_class calls, prints
every returned reference, the order and content of the generated methods and the full generated text
digest; then translates and executes real workbooks (whole file and entry cell), also in child processes
with different hash seeds. Output must be the same before and after the refactoring.
"""
import hashlib
import os
import random
import re
import shutil
import subprocess
import sys
import tempfile

from openpyxl import Workbook

from excel2pycl import Cell, Context, Executor, Parser

LINES = []


def out(*parts):
    LINES.append(' '.join(str(p) for p in parts))


def sha(text):
    return hashlib.sha256(text.encode('utf-8')).hexdigest()[:20] + f'/{len(text)}'


def attempt(label, fn):
    try:
        out(label, '=>', fn())
    except Exception as e:  # noqa
        out(label, '=> EXC', type(e).__name__, str(e)[:200])


METHOD = re.compile(r'^    def (_\w+_\w+_\w+(?:_\d+)?)\(self\):\n        return (.*)$', re.M)


def methods_of(class_text):
    """Names and bodies of the generated cell methods, in the order in which they were written."""
    tail = class_text[class_text.index("return '#VALUE!'"):]
    return METHOD.findall(tail)


def describe_class(context):
    text = context.build_class()
    again = context.build_class()
    return f'{sha(text)} repeat_equal={text == again} methods={methods_of(text)}'


def direct_part():
    context = Context()
    out('empty', describe_class(context))
    context._titles = {'S': 0, "q'uote": 1}
    context._sheets_size = [{'last_column': 2, 'last_row': 3}]
    out('with titles', describe_class(context))

    a, b, c = Cell(0, 0, 0), Cell(0, 1, 0), Cell(1, 0, 5)
    attempt('get unset', lambda: context.get_cell(a))
    attempt('set a', lambda: context.set_cell(a, '1'))
    attempt('get a', lambda: context.get_cell(a))
    attempt('get b', lambda: context.get_cell(b))
    attempt('sub a x', lambda: context.set_sub_cell(a, 'x'))
    attempt('sub a y', lambda: context.set_sub_cell(a, 'y'))
    attempt('sub a x again', lambda: context.set_sub_cell(a, 'x'))
    attempt('sub b x', lambda: context.set_sub_cell(b, 'x'))
    attempt('sub a empty code', lambda: context.set_sub_cell(a, ''))
    attempt('sub a empty code again', lambda: context.set_sub_cell(a, ''))
    attempt('sub a None code', lambda: context.set_sub_cell(a, None))
    attempt('sub a int code', lambda: context.set_sub_cell(a, 1))
    attempt('sub a True code', lambda: context.set_sub_cell(a, True))
    attempt('sub a 1.0 code', lambda: context.set_sub_cell(a, 1.0))
    attempt('sub a y again', lambda: context.set_sub_cell(a, 'y'))
    attempt('sub c before its cell', lambda: context.set_sub_cell(c, 'self._sum([1])'))
    attempt('set c', lambda: context.set_cell(c, "self._cell_preprocessor('_1_0_5_0')"))
    attempt('set a overwrite', lambda: context.set_cell(a, '2'))
    attempt('set b', lambda: context.set_cell(b, "'text'"))
    out('class', describe_class(context))
    out('sub table', context._sub_cell_translations)
    out('cell table', context._cell_translations)
    out('divided', list(context._get_divided_sub_cell_translations().items()))

    # cells whose identifiers are not usable
    for bad in [Cell('S', 'A', '1'), Cell(0, 'A', 0), Cell(0, 0, None), Cell(0, None, 0), Cell('S', 0, 0),
                Cell(None, 0, 0)]:
        attempt(f'bad get {bad}', lambda: context.get_cell(bad))
        attempt(f'bad set {bad}', lambda: context.set_cell(bad, '0'))
        attempt(f'bad sub {bad}', lambda: context.set_sub_cell(bad, '0'))
        attempt(f'bad start {bad}', lambda: context.start_cell_translation(bad))
    handled = Cell('S', 'A', None, _handled_identifiers=True)
    attempt('handled odd get', lambda: context.get_cell(handled))
    attempt('handled odd sub', lambda: context.set_sub_cell(handled, 'z'))
    attempt('handled odd set', lambda: context.set_cell(handled, 'zz'))
    attempt('handled odd sub 2', lambda: context.set_sub_cell(handled, 'z2'))
    out('class 2', describe_class(context))

    # in-progress tracking
    attempt('start a', lambda: context.start_cell_translation(a))
    attempt('start b', lambda: context.start_cell_translation(b))
    attempt('start a again', lambda: context.start_cell_translation(a))
    attempt('finish a', lambda: context.finish_cell_translation('_0_0_0'))
    attempt('finish a again', lambda: context.finish_cell_translation('_0_0_0'))
    attempt('finish unknown', lambda: context.finish_cell_translation('nope'))
    attempt('start a after finish', lambda: context.start_cell_translation(a))
    out('in progress', context._cells_in_progress)

    # sub cell whose generated name collides with a cell name / prefix that looks like a sub cell
    context = Context()
    attempt('collision set', lambda: context.set_cell(Cell(0, 0, 0), "'cell'"))
    attempt('collision sub', lambda: context.set_sub_cell(Cell(0, 0, 0), "'sub0'"))
    context._cell_translations['_0_0_0_0'] = "'direct'"
    context._cell_translations['_9_9_9'] = "'late'"
    out('collision class', describe_class(context))
    context._sub_cell_translations['_0_0'] = ["'p0'", "'p1'"]
    context._sub_cell_translations['_0_0_0'].append("'sub1'")
    context._sub_cell_translations['_7_7_7'] = []
    out('collision class 2', describe_class(context))

    # long fixed-seed random histories, two independent contexts interleaved
    rnd = random.Random(20260930)
    contexts = [Context(), Context()]
    cells = [Cell(t, col, r) for t in range(2) for col in range(3) for r in range(3)]
    codes = [f'code{i}' for i in range(12)] + ['', '[1,2]', "self._cell_preprocessor('_0_0_0')", 'lambda x: x>1']
    trace = []
    for step in range(4000):
        ctx_index = rnd.randrange(2)
        ctx = contexts[ctx_index]
        cell = rnd.choice(cells)
        action = rnd.choice(['sub', 'sub', 'sub', 'set', 'get', 'build'])
        if action == 'sub':
            trace.append(f'{ctx_index}s{ctx.set_sub_cell(cell, rnd.choice(codes))}')
        elif action == 'set':
            trace.append(f'{ctx_index}c{ctx.set_cell(cell, rnd.choice(codes))}')
        elif action == 'get':
            trace.append(f'{ctx_index}g{ctx.get_cell(cell)}')
        elif step % 50 == 0:
            trace.append(f'{ctx_index}b{sha(ctx.build_class())}')
    out('random trace', sha('\n'.join(trace)), len(trace), trace[:12], trace[-6:])
    for i, ctx in enumerate(contexts):
        out(f'random class {i}', describe_class(ctx))
        out(f'random divided {i}', list(ctx._get_divided_sub_cell_translations().items()))


def make_book(path):
    wb = Workbook()
    ws = wb.active
    ws.title = 'Main'
    for r in range(1, 7):
        ws.cell(row=r, column=1, value=r)
        ws.cell(row=r, column=2, value=r % 3)
        ws.cell(row=r, column=3, value=f'=A{r}+B{r}')
    formulas = ['=SUM(A1:A6)', '=SUM(A1:A6)+SUM(A1:A6)', '=SUM(A1:A6,B1:B6)', '=AVERAGE(C1:C6)', '=MAX(A1:C6)-MIN(A1:C6)',
                '=SUMIF(B1:B6,1,A1:A6)', '=SUMIF(B1:B6,">0",A1:A6)+SUMIF(B1:B6,">0",A1:A6)',
                '=COUNTIFS(A1:A6,">2",B1:B6,"<2")', '=IF(SUM(A1:A3)>5,SUM(A1:A3),SUM(A4:A6))',
                '=VLOOKUP(4,A1:C6,3,0)', '=INDEX(A1:C6,2,3)+INDEX(A1:C6,2,3)', '=MATCH(5,A1:A6,0)',
                '=IFERROR(VLOOKUP(99,A1:C6,2,0),"none")', '=ROUND(AVERAGE(A1:A6)/3,2)', '=Other!A1+Other!A2',
                '=SUM(Other!A:A)', '=D1+D2+D1', '=LEFT("hello",2)&RIGHT("world",3)', '=SUMIFS(A1:A6,B1:B6,1,C1:C6,">3")',
                '=AVERAGEIFS(A1:A6,B1:B6,0)', '=MIN(A1:A6,7)', '=AND(A1>0,OR(B1>5,C1>0))', '=COUNT(A1:C6)', '=A1:A3']
    for i, f in enumerate(formulas, start=1):
        ws.cell(row=i, column=4, value=f)
    other = wb.create_sheet('Other')
    other['A1'] = 10
    other['A2'] = '=A1*Main!D1'
    other['A3'] = '=SUM(A1:A2)+SUM(A1:A2)'
    wb.save(path)
    return len(formulas)


def translations(xlsx):
    result = []
    parser = Parser().set_excel_file_path(xlsx)
    result.append(('whole', parser.get_translation()))
    for entry in [Cell('Main', 'D', '2'), Cell('Main', 'D', '7'), Cell('Other', 'A', '3'), Cell('Main', 'D', '17')]:
        name = f'{entry.title}!{entry.column}{entry.row}'
        result.append((name, parser.set_entrypoint_cell(entry).get_translation()))
    return result


def workbook_part(tmp):
    xlsx = os.path.join(tmp, 'ctx.xlsx')
    n = make_book(xlsx)
    for name, text in translations(xlsx):
        found = methods_of(text)
        out(f'translation {name}', sha(text), 'methods', len(found), sha(repr(found)))
        out(f'translation {name} order', [m[0] for m in found][:60])
    out_py = os.path.join(tmp, 'ctx_out.py')
    Parser().set_excel_file_path(xlsx).write_translation(out_py)
    executor = Executor().set_executed_class(class_file=out_py)
    for row in range(n):
        attempt(f'Main!D{row + 1}', lambda: repr(executor.get_cell(Cell('Main', 'D', str(row + 1))).value))
    for row in range(3):
        attempt(f'Other!A{row + 1}', lambda: repr(executor.get_cell(Cell('Other', 0, row)).value))
    executor.set_cells([Cell('Main', 'A', '1', value=50), Cell('Main', 'B', '6', value=1)])
    for row in range(n):
        attempt(f'after set Main!D{row + 1}', lambda: repr(executor.get_cell(Cell('Main', 'D', str(row + 1))).value))

    for seed in ('0', '7', 'random'):
        env = dict(os.environ, PYTHONHASHSEED=seed)
        done = subprocess.run([sys.executable, os.path.abspath(__file__), '--child', xlsx], env=env,
                              capture_output=True, text=True)
        out(f'child seed={seed} rc={done.returncode}', done.stdout.strip())
    out('parent', ' '.join(f'{name}:{sha(text)}' for name, text in translations(xlsx)))


def main():
    if len(sys.argv) > 2 and sys.argv[1] == '--child':
        print(' '.join(f'{name}:{sha(text)}' for name, text in translations(sys.argv[2])))
        return 0
    tmp = tempfile.mkdtemp(prefix='t28r4_')
    try:
        direct_part()
        workbook_part(tmp)
    finally:
        shutil.rmtree(tmp, ignore_errors=True)
    text = '\n'.join(LINES).replace(tmp, '<TMP>')
    for line in text.split('\n'):
        print(line if len(line) <= 1500 else line[:1500] + f'... [{len(line)} chars, sha {sha(line)}]')
    print('lines', len(LINES))
    print('digest', hashlib.sha256(text.encode()).hexdigest())
    return 0


if __name__ == '__main__':
    sys.exit(main())
