"""Equivalence demo for r2 (C18): the Excel reader (Excel.parse / _fill_cell / get_cells / titles).

Prints a deterministic digest; must be identical on the unchanged and on the refactored tree.
"""
import datetime
import hashlib
import os
import shutil
import sys
import tempfile

from openpyxl import Workbook
from openpyxl.worksheet.formula import ArrayFormula

from excel2pycl import Parser, Executor, Cell
from excel2pycl.src.excel import Excel

OUT = []


def emit(*parts):
    OUT.append(' | '.join(str(p) for p in parts))


def digest(text):
    return f'{len(text)}:{hashlib.sha256(text.encode("utf-8")).hexdigest()[:20]}'


def typed(value):
    if isinstance(value, list):
        return '[' + ', '.join(typed(v) for v in value) + ']'
    if isinstance(value, Cell):
        return f'Cell({value.title!r},{value.column!r},{value.row!r},{typed(value.value)},{value._handled_identifiers})'
    return f'{type(value).__name__}:{value!r}'


def attempt(label, fn):
    try:
        result = fn()
    except BaseException as e:  # noqa
        emit(label, 'EXC', type(e).__name__, str(e)[:200])
        return None
    emit(label, 'OK', result)
    return result


def build_workbooks(tmp):
    paths = {}

    wb = Workbook()
    ws = wb.active
    ws.title = 'Types'
    ws.append([1, 2.5, True, False, 'text', '', None, 0, 0.0, -3, 10 ** 12, 1e-9])
    ws.append([datetime.datetime(2024, 2, 29, 12, 30, 15), datetime.date(2020, 1, 1), datetime.time(6, 0),
               '=A1+B1', '  padded  ', "quote'\"{}%s\\n", 'Ünï©ode', '0123'])
    ws['C4'] = 'sparse row 4'
    ws['H9'] = 9.75
    ws['A12'] = ArrayFormula('A12:A13', '=SUM(A1:B1*2)  ')
    ws['B12'] = ArrayFormula('B12', '=A1')
    ws['J11'] = '=SUM(A1:B1)'
    ws2 = wb.create_sheet('Sparse sheet')
    ws2['D3'] = 'only'
    ws2['B7'] = 7
    ws2['AB2'] = 'wide'
    wb.create_sheet('Blank')
    ws4 = wb.create_sheet('One')
    ws4['A1'] = 42
    ws5 = wb.create_sheet("O'Quote {x}")
    ws5.append(['a', 'b'])
    ws5.append(['c'])
    ws5.append([None, None, 'e'])
    paths['types'] = os.path.join(tmp, 'types.xlsx')
    wb.save(paths['types'])

    wb = Workbook()
    ws = wb.active
    ws.title = 'Sus'
    ws.append(['print(1)', '=SUM(A1:A2)', 'SUM(1)', 'os.system("x") and Eval(2)', 0, False, 'f() g(h) K(1)'])
    ws.append([None, 'a_1(2)', '=IF(foo(1),1,2)', 12, 'x()', 'X()', ''])
    ws['C5'] = ArrayFormula('C5', '=bar(1)')
    ws2 = wb.create_sheet('Sus2')
    ws2['B2'] = 'exec(code)'
    ws2['A1'] = 'fine'
    paths['sus'] = os.path.join(tmp, 'sus.xlsx')
    wb.save(paths['sus'])

    wb = Workbook()
    paths['empty'] = os.path.join(tmp, 'empty.xlsx')
    wb.save(paths['empty'])

    wb = Workbook()
    ws = wb.active
    ws.title = 'Big'
    for r in range(1, 41):
        for c in range(1, 1 + (r * 7) % 13):
            if (r + c) % 3:
                ws.cell(row=r, column=c, value=r * 100 + c if (r + c) % 2 else f's{r}_{c}')
    paths['big'] = os.path.join(tmp, 'big.xlsx')
    wb.save(paths['big'])
    return paths


def show_excel(label, excel):
    emit(label, 'titles', list(excel.get_titles().items()))
    emit(label, 'sizes', excel.get_sheets_size())
    emit(label, 'suspicious', list(excel._suspicious_cells.items()))
    attempt(f'{label} is_safe', excel.is_safe)
    for n, sheet in enumerate(excel._data):
        emit(label, 'sheet', n, 'rows', len(sheet), 'lens', [len(r) for r in sheet])
        for rn, row in enumerate(sheet):
            emit(label, n, rn, typed(row))
    cells = attempt(f'{label} get_cells count', lambda: len(excel.get_cells()))
    if cells is not None:
        emit(label, 'get_cells', digest('\n'.join(typed(c) for c in excel.get_cells())))
        for c in excel.get_cells()[:60]:
            emit(label, 'cell', typed(c), c.uid)


def probe(label, excel, n_titles):
    coords = [-2, -1, 0, 1, 2, 3, 6, 8, 11, 12, 27, 28, 40, 1000]
    for title in list(range(-1, n_titles + 2)):
        for row in coords:
            line = []
            for column in coords:
                try:
                    c = excel.fill_cell(Cell(title, column, row))
                    line.append(typed(c.value))
                except BaseException as e:  # noqa
                    line.append('EXC ' + type(e).__name__)
            emit(label, 'fill', title, row, digest('|'.join(line)), [x for x in line if x != 'NoneType:None'][:6])


def reader_part(paths):
    emit('== parse')
    excels = {}
    for key in ('types', 'sus', 'empty', 'big'):
        excels[key] = attempt(f'parse {key}', lambda: type(Excel.parse(paths[key])).__name__) and Excel.parse(paths[key])
        show_excel(key, excels[key])
    attempt('parse missing', lambda: Excel.parse(paths['types'] + '.nope'))
    attempt('parse keyword', lambda: Excel.parse(path=paths['empty']).get_sheets_size())

    emit('== fill_cell probes')
    probe('types', excels['types'], 5)
    probe('big', excels['big'], 1)
    probe('empty', excels['empty'], 1)

    ex = excels['types']
    emit('== string addressed cells')
    for title, column, row in [('Types', 'A', '1'), ('Types', 'L', '1'), ('Types', 'M', '1'), ('Types', 'A', '2'),
                               ('Types', 'C', '2'), ('Types', 'H', '9'), ('Types', 'A', '12'), ('Types', 'B', '12'),
                               ('Types', 'A', '13'), ('Sparse sheet', 'AB', '2'), ('Sparse sheet', 'D', '3'),
                               ('Sparse sheet', 'B', '7'), ('Sparse sheet', 'A', '8'), ('Blank', 'A', '1'),
                               ('One', 'A', '1'), ('One', 'B', '1'), ("O'Quote {x}", 'C', '3'),
                               ("O'Quote {x}", 'B', '2'), ('Nope', 'A', '1'), ('Types', 'A', ''), ('Types', 'A', None),
                               ('Types', 'A', '0'), ('Types', 'A', '-1'), (0, 'B', 1), ('Types', 1, '2'),
                               (True, 0, 0), (0, 1.0, 0), (0, 0, 1.5), ('Types', '', '1'), (None, 0, 0),
                               (0, None, 0)]:
        attempt(f'fill {title!r} {column!r} {row!r}', lambda: typed(ex.fill_cell(Cell(title, column, row))))
    attempt('_fill_cell unhandled str', lambda: typed(ex._fill_cell(Cell('Types', 'A', '1'))))
    attempt('_fill_cell handled str title', lambda: typed(ex._fill_cell(Cell('Types', 0, 0, _handled_identifiers=True))))
    attempt('_fill_cell handled none row', lambda: typed(ex._fill_cell(Cell(0, 0, None, _handled_identifiers=True))))
    attempt('_fill_cell handled none row far title',
            lambda: typed(ex._fill_cell(Cell(99, 0, None, _handled_identifiers=True))))
    attempt('_fill_cell handled none column', lambda: typed(ex._fill_cell(Cell(0, None, 0, _handled_identifiers=True))))
    attempt('_fill_cell handled none column far row',
            lambda: typed(ex._fill_cell(Cell(0, None, 999, _handled_identifiers=True))))
    attempt('_fill_cell keeps old value object', lambda: typed(ex._fill_cell(Cell(0, 500, 500, value='old'))))

    emit('== ranges and matrices')
    attempt('range row', lambda: typed(ex.get_range(Cell('Types', 'A', '1'), Cell('Types', 'N', '1'))))
    attempt('range col', lambda: typed(ex.get_range(Cell('Types', 'A', '1'), Cell('Types', 'A', '14'))))
    attempt('range whole col', lambda: typed(ex.get_range(Cell('Types', 'C', ''), Cell('Types', 'C', ''))))
    attempt('range blank sheet col', lambda: typed(ex.get_range(Cell('Blank', 'C', ''), Cell('Blank', 'C', ''))))
    attempt('range diag', lambda: typed(ex.get_range(Cell('Types', 'A', '1'), Cell('Types', 'B', '2'))))
    attempt('range sheets', lambda: typed(ex.get_range(Cell('Types', 'A', '1'), Cell('One', 'A', '2'))))
    attempt('matrix', lambda: typed(ex.get_matrix(Cell('Types', 'A', '1'), Cell('Types', 'D', '4'))))
    attempt('matrix ragged', lambda: typed(ex.get_matrix(Cell("O'Quote {x}", 'A', '1'), Cell("O'Quote {x}", 'D', '4'))))
    attempt('matrix cols', lambda: typed(ex.get_matrix(Cell('Sparse sheet', 'A', ''), Cell('Sparse sheet', 'D', ''))))
    attempt('matrix one col', lambda: typed(ex.get_matrix(Cell('Sparse sheet', 'B', ''), Cell('Sparse sheet', 'B', ''))))
    attempt('matrix bad', lambda: typed(ex.get_matrix(Cell('Types', 'A', '1'), Cell('Types', 'B', ''))))
    attempt('similar', lambda: typed(ex.get_similar_second(Cell('One', 'A', '1'), Cell('Types', 'A', '1'),
                                                           Cell('Types', 'C', '4'))))

    emit('== hand made data (ragged, duplicate titles, no sheets)')
    hand = Excel({'data': [[[1, 'two'], [], [None, None, 3.0]], [], [[True]]],
                  'titles': ['dup', 'other', 'dup'], 'suspicious_cells': {}, 'sheets_size': 'as given'})
    show_excel('hand', hand)
    probe('hand', hand, 3)
    attempt('hand dup title', lambda: typed(hand.fill_cell(Cell('dup', 'A', '1'))))
    attempt('hand other title', lambda: typed(hand.fill_cell(Cell('other', 'A', '1'))))
    none = Excel({'data': [], 'titles': [], 'suspicious_cells': {"'x'A1": ['f()']}, 'sheets_size': []})
    show_excel('none', none)
    attempt('none fill', lambda: typed(none.fill_cell(Cell(0, 0, 0))))
    attempt('titles generator', lambda: list(Excel({'data': [[(1, 2)]], 'titles': (t for t in ['g1', 'g2']),
                                                    'suspicious_cells': None, 'sheets_size': None}).get_titles().items()))
    tup = Excel({'data': [[(1, 2)]], 'titles': ('g1', 'g2'), 'suspicious_cells': {}, 'sheets_size': None})
    show_excel('tup', tup)
    attempt('titles not sized', lambda: Excel({'data': [], 'titles': 5, 'suspicious_cells': {}, 'sheets_size': []}))

    emit('== suspicious constructions helper')
    for v in ['print(1)', 'SUM(1)', 'a(b) C(d) e_1(2)', '', 0, None, 1.5, 'x ( y )', 'Ab(1)', 'AB(1)', 'aB(1)x(2)',
              'f(\n)', '=IF(foo(1),bar(2),3)', 'f(', ')(', '1(2)', '_(_)', True, datetime.date(2020, 1, 1),
              ArrayFormula('A1', '=f(1)')]:
        attempt(f'suspicious {v!r:.40}', lambda: Excel._get_suspicious_constructions(v))


def end_to_end_part(tmp, paths):
    emit('== end to end')
    for key in ('types', 'big', 'empty', 'sus'):
        parser = Parser().set_excel_file_path(paths[key])
        out = os.path.join(tmp, f'{key}.py')
        attempt(f'{key} translate safe', lambda: digest(parser.get_translation()))
        parser.disable_safety_check()
        ok = attempt(f'{key} translate unsafe', lambda: digest(parser.write_translation(out).get_translation()))
        if ok is None:
            continue
        text = parser.get_translation()
        marker = "        return '#VALUE!'\n"
        funcs = text[text.rindex(marker) + len(marker):]
        emit(key, 'functions', digest(funcs), funcs.count('def '))
        for line in funcs.splitlines()[:90]:
            emit(f'  {key}>', line)
        executor = Executor().set_executed_class(class_file=out)
        inst = executor.get_executed_class()
        emit(key, 'titles', list(inst.get_titles().items()), 'sizes', inst.get_sheets_size())
        for title in inst.get_titles():
            sheet = attempt(f'{key} get_sheet {title!r}',
                            lambda: digest('\n'.join(typed(c) for row in executor.get_sheet(title) for c in row)))
            if sheet is not None and key != 'big':
                for row in executor.get_sheet(title):
                    emit(f'  {key} {title!r}', [typed(c.value) for c in row])
        for title, column, row in [(0, 0, 0), (0, 50, 50), (0, 0, 11), (0, 1, 11), (0, 0, 12)]:
            attempt(f'{key} value {title},{column},{row}', lambda: typed(executor.get_cell(Cell(title, column, row)).value))
    entry = Parser().set_excel_file_path(paths['types'])
    for cell in [Cell('Types', 'D', '2'), Cell('Types', 'J', '11'), Cell('Types', 'A', '12'), Cell('Types', 'B', '12'),
                 Cell('Sparse sheet', 'AB', '2'), Cell('Blank', 'Q', '17'), Cell('Types', 'A', '2')]:
        attempt(f'entry {cell}', lambda: digest(entry.set_entrypoint_cell(cell).get_translation()))


def main():
    tmp = tempfile.mkdtemp(prefix='t59r2_')
    try:
        paths = build_workbooks(tmp)
        reader_part(paths)
        end_to_end_part(tmp, paths)
    finally:
        shutil.rmtree(tmp, ignore_errors=True)
    text = '\n'.join(OUT).replace(tmp, '<TMP>')
    print(text)
    print('DIGEST', hashlib.sha256(text.encode('utf-8')).hexdigest())
    return 0


if __name__ == '__main__':
    sys.exit(main())
