"""Equivalence demo for r2 (Excel._fill_cell guard-clause helper; range/matrix/get_cells loops -> comprehensions).

Reads sparse / ragged / multi-sheet workbooks and probes every accessor of the reader with in-range,
boundary, out-of-range, negative and ill-typed coordinates, then translates the workbooks and evaluates
every cell (including formulas over ranges, whole columns, matrices and other sheets).
"""
import datetime
import hashlib
import itertools
import os
import shutil
import sys
import tempfile

from openpyxl import Workbook

from excel2pycl import Parser, Executor, Cell
from excel2pycl.src.excel import Excel


def sha(text: str) -> str:
    return hashlib.sha256(text.encode('utf-8')).hexdigest()[:16]


def show(value):
    return f'{type(value).__name__}:{value!r}'


def show_cell(cell):
    return f'({cell.title},{cell.column},{cell.row})={show(cell.value)}'


def attempt(label, function):
    try:
        result = function()
    except Exception as e:
        print(f'  {label} -> !{type(e).__name__}: {str(e)[:160]}')
        return
    if isinstance(result, Cell):
        text = show_cell(result)
    elif isinstance(result, list) and result and isinstance(result[0], list):
        text = '[' + ' | '.join(','.join(show_cell(c) for c in row) for row in result) + ']'
    elif isinstance(result, list):
        text = '[' + ','.join(show_cell(c) if isinstance(c, Cell) else show(c) for c in result) + ']'
    else:
        text = show(result)
    if len(text) > 700:
        text = f'{text[:200]}...len={len(text)} sha={sha(text)}'
    print(f'  {label} -> {text}')


def build_main(path):
    wb = Workbook()
    ws = wb.active
    ws.title = 'Main'
    ws.append([1, 2, 3, 4, 5])
    ws.append([1.5, 'two', True, None, datetime.datetime(2022, 5, 6, 7, 8, 9)])
    ws.append([10])
    ws.append([])
    ws.append([None, None, 30, None, None, None, 60])
    ws['A8'] = '=SUM(A1:A5)'
    ws['B8'] = '=SUM(A1:E1)'
    ws['C8'] = '=SUM(A:A)-A8'
    ws['D8'] = '=SUM(A1:C3)'
    ws['E8'] = '=VLOOKUP(10, A1:C5, 1, FALSE())'
    ws['F8'] = '=INDEX(A1:E2, 2, 2)'
    ws['G8'] = '=SUM(A20:A25)+COUNTBLANK(A1:A6)'
    ws['H8'] = '=Other!B2+\'Third sheet\'!A1'
    ws['I8'] = '=SUM(Other!A1:C1)'
    ws['J8'] = '=MAX(A1:G5)'
    ws['K8'] = '=SUM(A:C)'
    ws['L8'] = '=ZZ100'
    ws['M8'] = '=MATCH(3, A1:E1, 0)'
    other = wb.create_sheet('Other')
    other.append([100, 200, 300])
    other.append([None, 0.5])
    other['E9'] = 'corner'
    third = wb.create_sheet('Third sheet')
    third['A1'] = 7
    third['B3'] = '=Main!A1+Main!E1'
    wb.create_sheet('Blank')
    wb.save(path)


def build_bad(path):
    wb = Workbook()
    ws = wb.active
    ws.title = 'Main'
    ws.append([1, 2, 3])
    ws['A3'] = '=SUM(Other!A1:Other!C1)'
    wb.create_sheet('Other').append([1, 2, 3])
    wb.create_sheet('Third sheet')
    wb.create_sheet('Blank')
    wb.save(path)


def build_wide(path):
    wb = Workbook()
    ws = wb.active
    ws.title = 'W'
    for row in range(1, 30, 3):
        for column in range(1, 40, 7):
            ws.cell(row=row, column=column, value=row * 100 + column)
    ws['AN30'] = '=SUM(A1:AM1)+SUM(A1:A28)'
    ws['A31'] = '=AN30'
    wb.save(path)


def probe_reader(path):
    excel = Excel.parse(path)
    titles = excel.get_titles()
    print(' titles', titles, 'sizes', excel.get_sheets_size())
    sheet_count = len(titles)

    print(' -- fill_cell, integer coordinates')
    for title, column, row in itertools.product(range(-1, sheet_count + 1), (-2, -1, 0, 1, 4, 5, 6, 7, 50),
                                                (-2, -1, 0, 1, 2, 3, 4, 5, 7, 8, 50)):
        attempt(f'fill_cell({title},{column},{row})', lambda: excel.fill_cell(Cell(title, column, row)))

    print(' -- fill_cell, Excel-style coordinates')
    for title, column, row in [('Main', 'A', '1'), ('Main', 'E', '2'), ('Main', 'G', '5'), ('Main', 'H', '5'),
                               ('Other', 'E', '9'), ('Other', 'F', '9'), ('Third sheet', 'B', '3'),
                               ('Blank', 'A', '1'), ('Nope', 'A', '1'), ('Main', 'A', ''), ('Main', 'A', None),
                               ('W', 'AN', '30'), ('W', 'A', '1'), ('W', 'XFD', '1048576'), ('Main', 'a', '1'),
                               ('Main', 'A', '0'), ('Main', '', '1'), (0, 'B', 1), (0, 1, '2')]:
        attempt(f'fill_cell({title!r},{column!r},{row!r})', lambda: excel.fill_cell(Cell(title, column, row)))

    print(' -- _fill_cell, raw (no address handling)')
    for title, column, row in [(0, 0, 0), (0, 0, None), (None, 0, 0), (0, None, 0), ('Main', 0, 0), (0, 'A', 0),
                               (0, 0, 1.0), (0.0, 0, 0), (True, 1, 1), (0, 4, 1), (99, 0, 0), (-1, 0, 0),
                               (0, 0, -1), (0, -1, 0), (0, 10 ** 9, 0), (0, 0, 10 ** 9)]:
        attempt(f'_fill_cell({title!r},{column!r},{row!r})', lambda: excel._fill_cell(Cell(title, column, row)))

    print(' -- get_range')
    pairs = [((0, 0, 0), (0, 0, 4)), ((0, 0, 0), (0, 4, 0)), ((0, 0, 0), (0, 0, 0)), ((0, 0, 4), (0, 0, 0)),
             ((0, 4, 0), (0, 0, 0)), ((0, 0, 0), (0, 1, 1)), ((0, 0, 0), (1, 0, 4)), ((0, 2, 3), (0, 8, 3)),
             ((0, 6, 2), (0, 6, 9)), ((0, 0, None), (0, 0, None)), ((0, 6, None), (0, 6, None)),
             ((0, 60, None), (0, 60, None)), ((1, 1, None), (1, 1, None)), ((0, 0, None), (0, 0, 3)),
             ((0, 0, 3), (0, 0, None)), ((9, 0, None), (9, 0, None)), ((9, 0, 0), (9, 0, 2)),
             ((-1, 0, 0), (-1, 0, 2)), ((0, -3, 0), (0, 1, 0)), ((0, 0, -3), (0, 0, 1))]
    for first, second in pairs:
        attempt(f'get_range({first},{second})', lambda: excel.get_range(Cell(*first), Cell(*second)))
    for first, second in [(('Main', 'A', '1'), ('Main', 'A', '3')), (('Main', 'A', '1'), ('Main', 'C', '1')),
                          (('Other', 'A', ''), ('Other', 'A', '')), (('Main', 'A', '1'), ('Other', 'A', '3')),
                          (('Zzz', 'A', '1'), ('Main', 'A', '3')), (('Third sheet', 'B', '1'), ('Third sheet', 'B', '9'))]:
        attempt(f'get_range({first},{second})', lambda: excel.get_range(Cell(*first), Cell(*second)))

    print(' -- get_matrix')
    pairs = [((0, 0, 0), (0, 4, 4)), ((0, 0, 0), (0, 0, 0)), ((0, 3, 3), (0, 7, 6)), ((0, 2, 2), (0, 1, 1)),
             ((0, 0, 0), (1, 2, 2)), ((0, 0, None), (0, 0, None)), ((0, 0, None), (0, 2, None)),
             ((0, 5, None), (0, 9, None)), ((1, 0, None), (1, 4, None)), ((3, 0, None), (3, 1, None)),
             ((0, 0, None), (0, 2, 3)), ((0, 0, 2), (0, 2, None)), ((0, 0, -1), (0, 1, 1)), ((0, 0, 0), (0, 1, -1)),
             ((0, -2, 0), (0, 1, 1)), ((7, 0, 0), (7, 1, 1)), ((2, 0, 0), (2, 3, 3))]
    for first, second in pairs:
        attempt(f'get_matrix({first},{second})', lambda: excel.get_matrix(Cell(*first), Cell(*second)))
    for first, second in [(('Main', 'A', '1'), ('Main', 'C', '2')), (('Other', 'A', ''), ('Other', 'C', '')),
                          (('Main', 'A', '1'), ('Other', 'C', '2')), (('Main', 'A', ''), ('Main', 'C', '2'))]:
        attempt(f'get_matrix({first},{second})', lambda: excel.get_matrix(Cell(*first), Cell(*second)))

    print(' -- _get_matrix / _get_*_range, raw')
    attempt('_get_matrix diff sheets', lambda: excel._get_matrix(Cell(0, 0, 0), Cell(1, 1, 1)))
    attempt('_get_matrix none rows', lambda: excel._get_matrix(Cell(0, 0, None), Cell(0, 1, None)))
    attempt('_get_matrix ok', lambda: excel._get_matrix(Cell(1, 0, 0), Cell(1, 2, 1)))
    attempt('_get_horizontal_range none col', lambda: excel._get_horizontal_range(Cell(0, 0, 0), Cell(0, None, 0)))
    attempt('_get_horizontal_range none first col', lambda: excel._get_horizontal_range(Cell(0, None, 0), Cell(0, 1, 0)))
    attempt('_get_horizontal_range none row', lambda: excel._get_horizontal_range(Cell(0, 0, None), Cell(0, 2, None)))
    attempt('_get_vertical_range bad sheet', lambda: excel._get_vertical_range(Cell(42, 0, None), Cell(42, 0, None)))
    attempt('_get_vertical_range unhandled str', lambda: excel._get_vertical_range(Cell(0, 'A', 0), Cell(0, 'A', 2)))

    print(' -- get_similar_second')
    attempt('similar', lambda: excel.get_similar_second(Cell(0, 0, 0), Cell(0, 1, 1), Cell(0, 3, 4)))
    attempt('similar none', lambda: excel.get_similar_second(Cell(0, 0, 0), Cell(0, 1, None), Cell(0, 3, None)))

    print(' -- get_cells')
    cells = excel.get_cells()
    print('  count', len(cells))
    listing = [show_cell(c) + f'/{c.has_handled_identifiers()}' for c in cells]
    print('  sha', sha('\n'.join(listing)))
    for line in listing[:60]:
        print('   ', line)
    print('  distinct objects', len({id(c) for c in cells}) == len(cells))


def probe_translation(path, out_py):
    parser = Parser().set_excel_file_path(path)
    try:
        parser.write_translation(out_py)
    except Exception as e:
        print(' translate', type(e).__name__, str(e)[:300])
        return
    text = parser.get_translation()
    print(f' translate ok len={len(text)} sha={sha(text)}')
    members = [line for line in text.splitlines() if line.startswith('    def _') and line[9:10].isdigit()]
    print(' members', len(members), sha('\n'.join(members)))
    executor = Executor().set_executed_class(class_file=out_py)
    for number in range(len(executor._titles)):
        for row_number, row in enumerate(executor.get_sheet(number)):
            values = [show(c.value) for c in row]
            if any(not v.startswith('EmptyCell') for v in values):
                print(f'  sheet{number} r{row_number}', values)
            else:
                print(f'  sheet{number} r{row_number} all empty x{len(values)}')
    entry = Parser().set_excel_file_path(path).set_entrypoint_cell(Cell(0, 0, 0))
    try:
        print(' entrypoint sha', sha(entry.get_translation()))
    except Exception as e:
        print(' entrypoint', type(e).__name__, str(e)[:200])


def chain_ok(length, template):
    from excel2pycl.src.context import Context
    from excel2pycl.src.translators import CellTranslator
    rows = [[[template.format(n=row + 2), 1] for row in range(length)] + [[1, 1]]]
    excel = Excel({'data': rows, 'titles': ['S'], 'suspicious_cells': {}, 'sheets_size': []})
    try:
        CellTranslator.translate(Cell(0, 0, 0), excel, Context())
        return True
    except RecursionError:
        return False


def longest_chain(template):
    low, high = 1, 300
    while low < high:
        middle = (low + high + 1) // 2
        if chain_ok(middle, template):
            low = middle
        else:
            high = middle - 1
    return low


def main():
    tmp = tempfile.mkdtemp(prefix='t46r2_')
    try:
        for builder in (build_main, build_wide, build_bad):
            path = os.path.join(tmp, builder.__name__ + '.xlsx')
            builder(path)
            print('==', builder.__name__)
            probe_reader(path)
            probe_translation(path, os.path.join(tmp, builder.__name__ + '.py'))
        # a hand-made Excel object with ragged data, no file involved
        print('== synthetic')
        synthetic = Excel({'data': [[[1, 2], [], [3]], [], [[None]]], 'titles': ['a', 'b', 'c'],
                           'suspicious_cells': {}, 'sheets_size': []})
        for title, column, row in itertools.product(range(-1, 4), range(-1, 3), range(-1, 4)):
            attempt(f'fill_cell({title},{column},{row})', lambda: synthetic.fill_cell(Cell(title, column, row)))
        attempt('get_cells', synthetic.get_cells)
        attempt('matrix A:B', lambda: synthetic.get_matrix(Cell('a', 'A', ''), Cell('a', 'B', '')))
        attempt('range col', lambda: synthetic.get_range(Cell('a', 'A', ''), Cell('a', 'A', '')))
        attempt('range col b', lambda: synthetic.get_range(Cell('b', 'A', ''), Cell('b', 'A', '')))
        print('== dependency chains through ranges (depth at which the recursive translation overflows)')
        for template in ('=SUM(A{n}:A{n})', '=SUM(A{n}:B{n})', '=INDEX(A{n}:B{n},1,1)', '=A{n}+1',
                         '=VLOOKUP(1,A{n}:B{n},1,FALSE)'):
            print(' ', template, longest_chain(template))
    finally:
        shutil.rmtree(tmp, ignore_errors=True)
    return 0


if __name__ == '__main__':
    sys.exit(main())
