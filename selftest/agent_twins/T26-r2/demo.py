"""Equivalence demo for r2: ExpressionTokenTranslator (percent form, operators, brackets, comparisons).

Builds a workbook with many expression formulas (percent in every position, nested brackets, unary signs,
comparisons, ampersand, mixes with functions), translates every formula cell as an entry point and the
valid ones together as a whole workbook, prints the generated code of every cell function, the computed
values (also after overriding inputs) and exception class names/messages.
"""
import hashlib
import os
import re
import shutil
import sys
import tempfile

from openpyxl import Workbook

from excel2pycl import Parser, Executor, Cell

LINES = []


def out(line):
    LINES.append(line)


def show(value):
    return f'{type(value).__name__}:{value!r}'


def attempt(function):
    try:
        return show(function())
    except BaseException as error:  # noqa
        return f'!{type(error).__name__}:{error}'


INPUTS = [
    # A          B
    (50, 4),
    (12.5, 0.07),
    (-3, 1e-9),
    (123456789012345, 3),
    (0.1, 0.2),
    ('text', 'Text'),
    (None, 7),
    (True, 29.99),
    (1e300, 1e-300),
    (33, 100),
]

FORMULAS = [
    '=5%', '=50%', '=12.5%', '=0%', '=100%', '=1e3%', '=0.1%', '=33%', '=7%%', '=7%%%',
    '=A1%', '=A2%', '=A3%', '=A4%', '=A5%', '=A6%', '=A7%', '=A8%', '=A9%', '=B9%', '=A10%',
    '=A1%%', '=A1%+B1%', '=A1%-B1%', '=A1%*B1%', '=A1%/B1%', '=A1%*B1', '=A1*B1%', '=B1*A1%', '=A1+B1%', '=A1-B1%',
    '=A1/B1%', '=50%*A1', '=10%+20%', '=10%+20%+30%', '=10%*20%*30%', '=A1%+B1%+A2%', '=A1%*2+3', '=2+3*A1%',
    '=(A1+B1)%', '=(A1)%', '=(A1%)', '=(A1%+B1%)', '=(A1%)*(B1%)', '=(A1%+1)*2', '=2*(A1%+1)', '=((A1%))',
    '=-A1%', '=+A1%', '=-(A1%)', '=-A1%+B1%', '=-5%', '=1-5%', '=1--5%', '=A1%=0.5', '=A1%=B1%', '=A1%<>0.5',
    '=A1%>B1%', '=A1%>=0.5', '=A1%<1', '=A1%<=0.5', '=0.5=A1%', '=A5%+B5%=0.003', '=A5+B5=0.3', '=(A5+B5)=0.3',
    '=A1%&"x"', '="x"&A1%', '=A1%&B1%', '=A6&B6', '=A6&"-"&B6', '=A1&B1', '=A6=B6', '=A6<>B6', '=A6<B6',
    '=A1>B1', '=A1>=B1', '=A1<B1', '=A1<=B1', '=A1=B1', '=A1<>B1', '=A7=0', '=A7=""', '=A7<B7', '=A8=1',
    '=A1+B1', '=A1-B1', '=A1*B1', '=A1/B1', '=A1+B1*A2', '=(A1+B1)*A2', '=A1+(B1*A2)', '=(A1+B1)*(A2-B2)',
    '=((A1+B1))', '=(A1)', '=((A1))+1', '=1+((A1))', '=-A1', '=+A1', '=-(A1+B1)', '=-(-A1)', '=--A1', '=A1--B1',
    '=A1*-B1', '=A1/-B1', '=2*-3', '=-2*-3', '=A1+B1+A2+B2+A3+B3', '=A1-B1-A2-B2', '=A1/B1/A2', '=A1*B1/A2*B2',
    '=SUM(A1:A3)%', '=SUM(A1:A3)*10%', '=10%*SUM(A1:A3)', '=ROUND(A2%,3)', '=ROUND(A2,1)%', '=IF(A1%=0.5,10%,20%)',
    '=IF(A1%>B1%,"gt","le")', '=MAX(A1%,B1%)', '=MIN(A1,B1)%', '=SUM(A1%,B1%)', '=A1%+SUM(A1:B1)', '=AVERAGE(A1:A2)%',
    '=LEFT(A6,2)&RIGHT(B6,2)', '=LEFT(A6,A1%*4)', '=IFERROR(A6%,"err")', '=IFERROR(A1/0,5%)', '=A9*B9', '=A9%*B9',
    '=A4%', '=A4%*100', '=A4/100', '=A10%', '=A10/100', '=A10%=A10/100', '=A10%*3', '=(A10%)*3',
    '=1%+2%=3%', '=0.1+0.2=0.3', '=10%+20%=30%', '=(10%+20%)=30%',
    # structurally wrong formulas
    '=%', '=A1%%%%B1', '=A1+', '=*A1', '=()', '=(A1', '=A1)', '=A1 % B1', '=A1%B1', '=%A1', '=A1 %', '= A1 % + B1 %',
]

FUNCTION_RE = re.compile(r'^    def (_\d+_\d+_\d+(?:_\d+)?)\(self\):\n        return (.*)$', re.M)


def functions_of(text):
    return FUNCTION_RE.findall(text)


def main_part(tmp):
    path = os.path.join(tmp, 'expr.xlsx')
    wb = Workbook()
    ws = wb.active
    ws.title = 'E'
    for row, (a, b) in enumerate(INPUTS, start=1):
        if a is not None:
            ws.cell(row=row, column=1, value=a)
        if b is not None:
            ws.cell(row=row, column=2, value=b)
    for row, formula in enumerate(FORMULAS, start=1):
        ws.cell(row=row, column=4, value=formula)
    wb.save(path)
    wb.close()

    valid_rows = []
    for row, formula in enumerate(FORMULAS):
        out(f'## D{row + 1} {formula}')
        entry_py = os.path.join(tmp, f'entry_{row}.py')
        parser = Parser().set_excel_file_path(path).set_entrypoint_cell(Cell(0, 3, row))
        try:
            text = parser.get_translation()
        except BaseException as error:  # noqa
            out(f'   translate !{type(error).__name__}:{error}')
            continue
        valid_rows.append(row)
        out(f'   text sha256={hashlib.sha256(text.encode()).hexdigest()}')
        for name, code in functions_of(text):
            out(f'   def {name}: {code}')
        parser.write_translation(entry_py)
        try:
            executor = Executor().set_executed_class(class_file=entry_py)
        except BaseException as error:  # noqa
            out(f'   load !{type(error).__name__}:{error.msg if isinstance(error, SyntaxError) else error}')
            valid_rows.pop()
            continue
        out(f'   value={attempt(lambda: executor.get_cell(Cell(0, 3, row)).value)}')
        for a1, b1 in ((7, 2), (0.07, 1e15), (-12.5, -0.5), ('9', 3), (None, None)):
            executor.set_cells([Cell('E', 'A', '1', value=a1), Cell('E', 'B', '1', value=b1)])
            out(f'   A1={a1!r},B1={b1!r} value={attempt(lambda: executor.get_cell(Cell(0, 3, row)).value)}')

    # whole-workbook translation of the valid formulas only
    path2 = os.path.join(tmp, 'expr_valid.xlsx')
    wb = Workbook()
    ws = wb.active
    ws.title = 'E'
    for row, (a, b) in enumerate(INPUTS, start=1):
        if a is not None:
            ws.cell(row=row, column=1, value=a)
        if b is not None:
            ws.cell(row=row, column=2, value=b)
    for row in valid_rows:
        ws.cell(row=row + 1, column=4, value=FORMULAS[row])
    wb.save(path2)
    wb.close()
    whole_py = os.path.join(tmp, 'whole.py')
    try:
        parser = Parser().set_excel_file_path(path2)
        text = parser.get_translation()
        out(f'whole text sha256={hashlib.sha256(text.encode()).hexdigest()} functions={len(functions_of(text))}')
        for name, code in functions_of(text):
            out(f'whole def {name}: {code}')
        parser.write_translation(whole_py)
        executor = Executor().set_executed_class(class_file=whole_py)
        for row in valid_rows:
            out(f'whole D{row + 1}={attempt(lambda: executor.get_cell(Cell(0, 3, row)).value)}')
    except BaseException as error:  # noqa
        out(f'whole !{type(error).__name__}:{error}')

    # whole-workbook translation of the workbook with the broken formulas is rejected
    out('whole(all) ' + attempt(lambda: len(Parser().set_excel_file_path(path).get_translation())))

    # percent sweep: x% for many x, compared with x/100 at 15 significant digits
    path3 = os.path.join(tmp, 'sweep.xlsx')
    wb = Workbook()
    ws = wb.active
    ws.title = 'S'
    xs = []
    for mantissa in (1, 3, 7, 11, 29, 123, 4567, 99999, 1234567, 123456789012345, 999999999999999, 100000000000001):
        for exponent in (-20, -9, -3, -1, 0, 1, 2, 5, 12):
            xs.append(float(f'{mantissa}e{exponent}'))
            xs.append(-float(f'{mantissa}e{exponent}'))
    for row, x in enumerate(xs, start=1):
        ws.cell(row=row, column=1, value=x)
        ws.cell(row=row, column=2, value=f'=A{row}%')
        ws.cell(row=row, column=3, value=f'=A{row}%+A{row}%')
        ws.cell(row=row, column=4, value=f'=A{row}%*100')
    wb.save(path3)
    wb.close()
    sweep_py = os.path.join(tmp, 'sweep.py')
    Parser().set_excel_file_path(path3).write_translation(sweep_py)
    executor = Executor().set_executed_class(class_file=sweep_py)
    digest = hashlib.sha256()
    exact = 0
    for row, x in enumerate(xs):
        values = [executor.get_cell(Cell(0, column, row)).value for column in (1, 2, 3)]
        digest.update(repr((x, values)).encode())
        exact += values[0] == float(f'{x / 100:.15g}')
        if row % 37 == 0:
            out(f'sweep x={x!r} -> {values!r}')
    out(f'sweep n={len(xs)} exact15={exact} sha256={digest.hexdigest()}')


def main():
    tmp = tempfile.mkdtemp(prefix='t26_r2_')
    try:
        main_part(tmp)
    finally:
        shutil.rmtree(tmp, ignore_errors=True)
    text = '\n'.join(LINES)
    print(text)
    print('TOTAL', len(LINES), hashlib.sha256(text.encode()).hexdigest())
    return 0


if __name__ == '__main__':
    sys.exit(main())
