"""Equivalence demo for r1: Executor.set_cells (sheet-size growth helper, dict union for overrides)."""
import copy
import datetime
import hashlib
import os
import shutil
import tempfile

from openpyxl import Workbook

from excel2pycl import Parser, Executor, Cell

OUT = []


def emit(*parts):
    OUT.append(' | '.join(str(p) for p in parts))


def show(value):
    return f'{type(value).__name__}:{value!r}'


def build_workbook(path):
    wb = Workbook()
    ws = wb.active
    ws.title = 'main'
    ws['A1'] = 1
    ws['A2'] = 2
    ws['A3'] = 3
    ws['B1'] = '=A1+A2'
    ws['B2'] = '=SUM(A1:A3)'
    ws['B3'] = '=1/0' if False else '=A3*10'
    ws['C1'] = '=B1+B2+B3'
    ws['C2'] = '=IF(A1>1,"big","small")'
    ws['C3'] = '=SUM(A1:A6)'
    ws['D1'] = '=other!A1+A1'
    ws['D2'] = '=SUM(E1:E3)'
    ws['D3'] = '=A10+1'
    ws['E1'] = 'text'
    other = wb.create_sheet('other')
    other['A1'] = 100
    other['A2'] = '=A1*2'
    other['B2'] = '=main!C1+A2'
    third = wb.create_sheet('empty one')
    third['A1'] = '=main!A1'
    wb.save(path)
    wb.close()


def attempt(label, fn):
    try:
        result = fn()
    except BaseException as e:  # noqa
        emit(label, 'EXC', type(e).__name__)
        return None
    emit(label, 'OK')
    return result


def snapshot(label, executor, probes):
    for sheet, column, row in probes:
        try:
            value = executor.get_cell(Cell(sheet, column, row)).value
            emit(label, 'get', sheet, column, row, show(value))
        except BaseException as e:  # noqa
            emit(label, 'get', sheet, column, row, 'EXC', type(e).__name__)
    emit(label, 'sizes', executor.get_executed_class().get_sheets_size(), executor._sheets_size)
    emit(label, 'cells', [(k, v.value) for k, v in executor._cells.items()])
    emit(label, 'flag', executor._cells_have_been_changed)
    for sheet in ('main', 1, 'empty one'):
        try:
            grid = executor.get_sheet(sheet)
            emit(label, 'sheet', sheet, [[show(c.value) for c in row] for row in grid])
        except BaseException as e:  # noqa
            emit(label, 'sheet', sheet, 'EXC', type(e).__name__)


def main():
    tmp = tempfile.mkdtemp(prefix='r1demo')
    try:
        xlsx = os.path.join(tmp, 'book.xlsx')
        out_py = os.path.join(tmp, 'book.py')
        build_workbook(xlsx)
        Parser().set_excel_file_path(xlsx).write_translation(out_py)

        probes = [(0, 0, 0), (0, 1, 0), (0, 1, 1), (0, 1, 2), (0, 2, 0), (0, 2, 1), (0, 2, 2), (0, 3, 0), (0, 3, 1),
                  (0, 3, 2), ('other', 'A', '2'), ('other', 'B', '2'), (2, 0, 0), ('main', 'A', '10'),
                  (0, 30, 40), ('main', 'E', '1')]

        def fresh():
            return Executor().set_executed_class(class_file=out_py)

        # 1. sequences of overrides: last write wins, blanks, beyond range, formula cells
        ex = fresh()
        snapshot('s0', ex, probes)
        steps = [
            [Cell(0, 0, 0, 10)],
            [Cell(0, 0, 0, 11), Cell(0, 0, 0, 12)],
            [Cell('main', 'B', '1', 1000)],
            [Cell('main', 'A', '10', 5), Cell('main', 'A', '5', 7)],
            [Cell(0, 30, 40, 'far')],
            [Cell('other', 'A', '1', 0.5), Cell(1, 0, 0, 0.25)],
            [Cell('main', 'E', '2', 4), Cell('main', 'E', '3', 6), Cell('main', 'E', '1', 2)],
            [Cell(0, 0, 0, None)],
            [Cell(0, 1, 1, '#N/A')],
            [Cell(0, 0, 1, True), Cell(0, 0, 2, datetime.datetime(2020, 1, 2))],
            [Cell('empty one', 'C', '7', 'x'), Cell(2, 0, 0, 'y')],
            [],
            [Cell(0, 0, 0, 1), Cell(0, 0, 1, 2), Cell(0, 0, 2, 3), Cell(0, 1, 0, 3), Cell(0, 1, 1, 6)],
        ]
        for n, step in enumerate(steps, 1):
            attempt(f's{n}.set', lambda: ex.set_cells(step))
            snapshot(f's{n}', ex, probes)

        # 2. the same cell objects passed again (already handled identifiers) and tuples / generators as input
        ex = fresh()
        shared = [Cell('main', 'A', '1', 5), Cell('main', 'A', '2', 6)]
        attempt('reuse.1', lambda: ex.set_cells(shared))
        shared[0].value = 50
        attempt('reuse.2', lambda: ex.set_cells(shared))
        snapshot('reuse', ex, probes[:6])
        attempt('tuple', lambda: ex.set_cells((Cell(0, 0, 0, 8), Cell(0, 0, 0, 9))))
        snapshot('tuple', ex, probes[:6])
        attempt('generator', lambda: ex.set_cells(Cell(0, 0, r, 70 + r) for r in range(3)))
        snapshot('generator', ex, probes[:6])
        attempt('iterator-beyond', lambda: ex.set_cells(iter([Cell(0, 50, 60, 1)])))
        snapshot('iterator-beyond', ex, probes[:3])

        # 3. rejected inputs, and the state left behind by a partially processed batch
        bad_batches = {
            'unknown-title': [Cell(0, 7, 7, 1), Cell('nope', 'A', '1', 2), Cell(0, 9, 9, 3)],
            'row-none-str': [Cell(0, 8, 8, 1), Cell('main', 'A', '', 2)],
            'row-none-int': [Cell(0, 0), Cell(0, 1, 1, 2)],
            'sheet-out-of-range': [Cell(0, 12, 12, 1), Cell(9, 0, 0, 2)],
            'negative-sheet': [Cell(-1, 20, 20, 2)],
            'negative-sheet-too-far': [Cell(-4, 0, 0, 2)],
            'column-none': [Cell(0, None, 0, 2)],
            'bad-column-letter': [Cell('main', '1', '1', 2)],
            'bad-row-string': [Cell('main', 'A', 'x', 2)],
            'float-coords': [Cell(0, 1.5, 2.5, 2)],
            'not-a-cell': [Cell(0, 15, 15, 1), 'A1'],
            'not-iterable': None,
            'title-float': [Cell(0.0, 0, 0, 3)],
            'title-none': [Cell(None, 0, 0, 3)],
            'bool-coords': [Cell(False, True, True, 'b')],
        }
        for name, batch in bad_batches.items():
            ex = fresh()
            ex.set_cells([Cell(0, 0, 0, 99)])
            attempt(f'bad.{name}', lambda: ex.set_cells(batch))
            emit(f'bad.{name}', 'sizes', ex._sheets_size, 'cells',
                 [(k, v.value) for k, v in ex._cells.items()], 'flag', ex._cells_have_been_changed)
            for probe in probes[:4]:
                try:
                    emit(f'bad.{name}', probe, show(ex.get_cell(Cell(*probe)).value))
                except BaseException as e:  # noqa
                    emit(f'bad.{name}', probe, 'EXC', type(e).__name__)

        # 4. executor without a class / with damaged size records
        ex = Executor()
        attempt('noclass.int', lambda: ex.set_cells([Cell(0, 0, 0, 1)]))
        attempt('noclass.str', lambda: ex.set_cells([Cell('main', 'A', '1', 1)]))
        attempt('noclass.empty', lambda: ex.set_cells([]))
        emit('noclass', ex._cells, ex._cells_have_been_changed, ex._sheets_size)
        for damaged in ({'last_row': 3}, {'last_column': 3}, {}, {'last_row': 'x', 'last_column': 2},
                        {'last_row': 1, 'last_column': None}):
            ex = fresh()
            ex._sheets_size[0] = dict(damaged)
            attempt(f'damaged.{sorted(damaged)}', lambda: ex.set_cells([Cell(0, 5, 6, 1)]))
            emit('damaged', ex._sheets_size, list(ex._cells), ex._cells_have_been_changed)

        # 5. a grid of single overrides on a fresh executor each: sizes only grow
        for row in (0, 2, 3, 5, 6, 7, 100):
            for column in (0, 3, 4, 5, 6, 26, 27):
                ex = fresh()
                ex.set_cells([Cell(0, column, row, row * column)])
                emit('grid', row, column, ex._sheets_size[0], show(ex.get_cell(Cell(0, 2, 2)).value),
                     show(ex.get_cell(Cell(0, column, row)).value))

        # 6. overrides held by the executor are the very Cell objects supplied (identity), merged in first-seen order
        ex = fresh()
        a, b, c = Cell(0, 0, 0, 1), Cell(0, 0, 1, 2), Cell(0, 0, 0, 3)
        ex.set_cells([a, b])
        before = ex._cells
        ex.set_cells([c])
        emit('identity', ex._cells['_0_0_0'] is c, ex._cells['_0_0_1'] is b, list(ex._cells), before is ex._cells,
             list(before), [v.value for v in before.values()])
    finally:
        shutil.rmtree(tmp, ignore_errors=True)

    text = '\n'.join(OUT)
    print(text)
    print('lines', len(OUT))
    print('sha256', hashlib.sha256(text.encode('utf-8')).hexdigest())


if __name__ == '__main__':
    main()
