"""Equivalence demo for r2: the runtime helper _compare (both copies: the class in abstract_excel_in_python_class.py
and the generated class printed from the template in context.py).  Every operator is applied to the cross product
of many operands of every kind; results and exceptions (class and message) are printed."""
import datetime
import decimal
import fractions
import os
import shutil
import tempfile

from openpyxl import Workbook

from excel2pycl import Parser, Executor, Cell
from excel2pycl.src.utilities.abstract_excel_in_python_class import AbstractExcelInPython


class Direct(AbstractExcelInPython):
    pass


class Weird:
    """int() works, float() does not"""
    def __init__(self, number):
        self.number = number

    def __int__(self):
        return self.number

    def __repr__(self):
        return f'Weird({self.number})'

    def __str__(self):
        return f'w{self.number}'


class OnlyFloat:
    def __init__(self, number):
        self.number = number

    def __float__(self):
        return self.number

    def __repr__(self):
        return f'OnlyFloat({self.number})'

    def __str__(self):
        return f'f{self.number}'


class MyDate(datetime.date):
    pass


OPS = ['==', '!=', '<', '<=', '>', '>=', '=', '<>', '', None, 5, ['<']]


def operands(cls):
    return [
        0, 1, -1, 2, 10, 10 ** 20, -10 ** 20, True, False,
        0.0, -0.0, 1.5, -1.5, 2.0, 0.1 + 0.2, 0.3, 1e308, float('inf'), float('-inf'), float('nan'),
        '', ' ', 'abc', 'abd', 'Abc', 'ABC', '10', '9', '1.5', ' 3 ', '1e3', 'nan', '2024-01-01', '2024-01-01 00:00:00',
        'w3', 'True', 'None',
        datetime.date(2024, 1, 1), datetime.date(2024, 1, 2), datetime.date(1, 1, 1), datetime.date(9999, 12, 31),
        datetime.datetime(2024, 1, 1), datetime.datetime(2024, 1, 1, 0, 0, 1), datetime.datetime(2023, 12, 31, 23, 59),
        MyDate(2024, 1, 1), datetime.time(1, 2), datetime.timedelta(days=1),
        cls.EmptyCell(), None, [], [1], [[1, 2]], (1,), {'a': 1},
        decimal.Decimal('1.5'), decimal.Decimal('NaN'), fractions.Fraction(3, 2), 1 + 2j, b'10', Weird(3), Weird(-1),
        OnlyFloat(1.5), OnlyFloat(2.0),
    ]


def show(value):
    return f'{type(value).__name__}:{value!r}'


def run(label, instance):
    values = operands(type(instance))
    for op in OPS[:8]:
        for left in values:
            for right in values:
                try:
                    result = show(instance._compare(op, left, right))
                except Exception as error:  # noqa
                    result = f'EXC {type(error).__name__}: {error}'
                print(label, repr(op), repr(left), repr(right), '->', result)
    some = [0, 1.5, 'abc', '10', datetime.date(2024, 1, 1), datetime.datetime(2024, 1, 1), type(instance).EmptyCell(),
            None, [1], Weird(3)]
    for op in OPS[8:]:
        for left in some:
            for right in some:
                try:
                    result = show(instance._compare(op, left, right))
                except Exception as error:  # noqa
                    result = f'EXC {type(error).__name__}: {error}'
                print(label, repr(op), repr(left), repr(right), '->', result)
    # laws of C10 on the plain kinds
    kinds = {
        'num': [-2, -1.5, 0, 0.5, 1, 1.5, 2, 10 ** 6, 1e-9, -1e-9],
        'text': ['', 'a', 'A', 'ab', 'b', '10', '9', 'z'],
        'date': [datetime.date(2024, 1, 1), datetime.datetime(2024, 1, 1), datetime.datetime(2024, 1, 1, 12),
                 datetime.date(2024, 1, 2), datetime.date(1999, 12, 31)],
    }
    for kind, items in kinds.items():
        for a in items:
            for b in items:
                flags = [instance._compare(op, a, b) for op in ('<', '==', '>', '!=', '<=', '>=')]
                mirror = instance._compare('>', b, a)
                print(label, 'LAW', kind, repr(a), repr(b), flags, mirror)


def main():
    run('class', Direct())
    tmp = tempfile.mkdtemp(prefix='t50r2_')
    try:
        xlsx = os.path.join(tmp, 'book.xlsx')
        out_py = os.path.join(tmp, 'book_translation.py')
        wb = Workbook()
        ws = wb.active
        rows = [
            (1.5, 2.5), (10, 10.0), ('abc', 'abd'), (datetime.date(2024, 1, 1), datetime.datetime(2024, 1, 1)),
            (datetime.date(2024, 1, 1), 'abc'), ('10', 9), (None, 0), (None, ''), (None, datetime.date(2024, 1, 1)),
            (None, 'x'), (None, 3), (None, -3), (3, 'abc'), (datetime.datetime(2024, 1, 1, 5), 45000), (True, 1),
            (-0.5, -0.25), ('Abc', 'abc'),
        ]
        formulas = []
        for index, (a, b) in enumerate(rows, start=1):
            if a is not None:
                ws.cell(row=index, column=1, value=a)
            ws.cell(row=index, column=2, value=b)
            for shift, op in enumerate(['=', '<>', '<', '<=', '>', '>=']):
                ws.cell(row=index, column=3 + shift, value=f'=A{index}{op}B{index}')
                ws.cell(row=index, column=9 + shift, value=f'=B{index}{op}A{index}')
                formulas.append((index, 3 + shift))
                formulas.append((index, 9 + shift))
        wb.save(xlsx)
        Parser().set_excel_file_path(xlsx).write_translation(out_py)
        executor = Executor().set_executed_class(class_file=out_py)
        for row, column in formulas:
            try:
                value = show(executor.get_cell(Cell(0, column - 1, row - 1)).value)
            except Exception as error:  # noqa
                value = f'EXC {type(error).__name__}: {error}'
            print('book', row, column, '->', value)
        run('template', executor.get_executed_class())
    finally:
        shutil.rmtree(tmp, ignore_errors=True)


if __name__ == '__main__':
    main()
