"""Equivalence demo for r4: how a cell is fetched from the read workbook (Excel._fill_cell) and how a
constant / blank / formula cell becomes code (CellTranslator._set_cell_to_context).

Probes Excel.fill_cell / _fill_cell / get_range / get_matrix at many coordinates (inside, on the edges, outside,
negative, non-integer, wrong types) printing value, type and the state of the Cell after an exception, then
translates workbooks whose cells hold every stored type (and texts with '=' in odd places) and prints the
generated code of every cell function and every evaluated value.
"""
import datetime
import hashlib
import itertools
import os
import shutil
import tempfile

from openpyxl import Workbook
from openpyxl.worksheet.formula import ArrayFormula

from excel2pycl import Parser, Executor, Cell, Excel, Context, CellTranslator

LINES = []


def emit(line):
    LINES.append(line)
    print(line)


def show(value):
    return f'{type(value).__name__}:{value!r}'


CONSTANTS = [0, 1, -3, 10 ** 15, 0.0, -0.5, 3.14159, 1e-12, 1e22, True, False, 'text', '', ' ', '0', '007', 'a=b', ' =1+1',
             "'=1+1", 'x=', "it's", 'say "hi"', 'back\\slash', 'new\nline', 'tab\there', '{braces}', '{0}', '%s',
             'ünï', '#N/A', 'None', 'self.EmptyCell', datetime.datetime(2024, 2, 29, 23, 59, 59),
             datetime.datetime(1900, 1, 1), datetime.date(2000, 1, 1), datetime.time(12, 0), datetime.timedelta(days=2, hours=3)]


def build_main(path):
    wb = Workbook()
    ws = wb.active
    ws.title = 'const'
    for i, v in enumerate(CONSTANTS):
        ws.cell(row=1 + i // 5, column=1 + (i % 5) * 2, value=v)  # every other column stays blank
    f = wb.create_sheet('formulas')
    formulas = ['=const!A1', '=const!B1', '=const!C1+1', '=const!ZZ1000', '=const!A2&"|"', '=const!B2&"|"', '=1+2',
                '=A1', '=B20', '=SUM(const!A1:I1)', '=IF(const!B1="","blank","filled")', '=const!G2', '=const!A3',
                '=LEFT(const!C3,1)', '=const!E7', '=const!G7', '=const!A8', '=const!C8', '=const!E8', '=formulas!A7*2',
                '=sparse!D4', '=sparse!A1', '=sparse!E4', '=sparse!D5', '=COUNTBLANK(sparse!A1:D4)', '=const!I7']
    for i, formula in enumerate(formulas):
        f.cell(row=i + 1, column=1, value=formula)
    f['C3'] = ArrayFormula('C3', '=SUM(const!A1:C1)')
    s = wb.create_sheet('sparse')
    s['D4'] = 44
    s['B2'] = 'b2'
    wb.create_sheet('empty')
    wb.save(path)
    wb.close()
    return formulas


def probe_excel(excel):
    titles = [0, 1, 2, 3, 4, -1, 99, True, 'const', 'sparse', 'nosheet', 1.0, None]
    columns = [0, 1, 3, 8, 9, 10, -1, -2, 500, 'A', 'D', 'ZZ', True, 2.0, None]
    rows = [0, 1, 3, 7, 8, -1, -9, 500, '1', '4', '', True, 1.0, None]
    for t, c, r in itertools.product(titles, columns, rows):
        cell = Cell(t, c, r, value='untouched')
        try:
            result = excel.fill_cell(cell)
            emit(f'fill_cell({t!r},{c!r},{r!r}) -> {show(result.value)} same_object={result is cell} '
                 f'ids=({cell.title!r},{cell.column!r},{cell.row!r})')
        except Exception as e:  # noqa
            emit(f'fill_cell({t!r},{c!r},{r!r}) raised {type(e).__name__}; cell value now {cell.value!r}')
    # the private fetch, without identifier normalisation
    for t, c, r in itertools.product([0, 2, 5, -1, 'const', 0.0, None], [0, 3, 4, -1, 'A', 1.5, None], [0, 3, 4, -1, '1', 2.5, None]):
        cell = Cell(t, c, r, value='untouched')
        try:
            emit(f'_fill_cell({t!r},{c!r},{r!r}) -> {show(excel._fill_cell(cell).value)}')
        except Exception as e:  # noqa
            emit(f'_fill_cell({t!r},{c!r},{r!r}) raised {type(e).__name__}; cell value now {cell.value!r}')
    ranges = [(('const', 'A', '1'), ('const', 'I', '1')), (('const', 'A', '1'), ('const', 'A', '9')),
              (('sparse', 'A', ''), ('sparse', 'A', '')), (('sparse', 'D', ''), ('sparse', 'D', '')),
              (('sparse', 'A', '1'), ('sparse', 'H', '1')), (('sparse', 'C', '3'), ('sparse', 'C', '30')),
              (('empty', 'A', ''), ('empty', 'A', '')), (('empty', 'A', '1'), ('empty', 'C', '1')),
              (('const', 'A', '1'), ('sparse', 'A', '2')), (('const', 'A', '1'), ('const', 'B', '2'))]
    for first, second in ranges:
        try:
            cells = excel.get_range(Cell(*first), Cell(*second))
            emit(f'get_range {first} {second} -> ' + ' '.join(f'{c.uid}={show(c.value)}' for c in cells))
        except Exception as e:  # noqa
            emit(f'get_range {first} {second} raised {type(e).__name__}')
    matrices = [(('const', 'A', '1'), ('const', 'C', '3')), (('sparse', 'A', '1'), ('sparse', 'F', '6')),
                (('sparse', 'A', ''), ('sparse', 'A', '')), (('sparse', 'B', ''), ('sparse', 'E', '')),
                (('empty', 'A', '1'), ('empty', 'B', '2')), (('empty', 'A', ''), ('empty', 'B', '')),
                (('const', 'A', '1'), ('sparse', 'B', '2')), (('const', 'A', ''), ('const', 'B', '2'))]
    for first, second in matrices:
        try:
            matrix = excel.get_matrix(Cell(*first), Cell(*second))
            emit(f'get_matrix {first} {second} -> ' + ' / '.join(' '.join(f'{c.uid}={show(c.value)}' for c in row) for row in matrix))
        except Exception as e:  # noqa
            emit(f'get_matrix {first} {second} raised {type(e).__name__}')


def function_lines(text):
    tail = text[text.rindex("return '#VALUE!'"):]
    lines = tail.splitlines()
    return [(a.strip()[4:-7], b.strip()[7:]) for a, b in zip(lines, lines[1:])
            if a.startswith('    def _') and b.startswith('        return ')]


def translate_cells_directly(excel):
    """CellTranslator on hand-made cells, including values a workbook cannot hold."""
    class Text(str):
        pass

    values = [None, 0, 1.5, True, 'plain', '=1+1', '= 2*3', ' =1', 'a=1', '=', '', Text('=4-1'), Text('sub'), b'=1', ('=',), 7j,
              datetime.datetime(2020, 1, 2), [1, 2], {'a': 1}]
    for number, value in enumerate(values):
        context = Context()
        cell = Cell(0, 50 + number, 50, value=value, _handled_identifiers=True)
        try:
            call = CellTranslator.translate(cell, excel, context)
            emit(f'translate value {show(value)} -> {call} ; code {context._cell_translations!r}')
        except Exception as e:  # noqa
            emit(f'translate value {show(value)} raised {type(e).__name__} ; stored {context._cell_translations!r} '
                 f'in progress {context._cells_in_progress!r}')


def main():
    tmp = tempfile.mkdtemp(prefix='t19_r4_')
    try:
        xlsx = os.path.join(tmp, 'main.xlsx')
        formulas = build_main(xlsx)
        excel = Excel.parse(xlsx)
        emit(f'titles {excel.get_titles()!r} sizes {excel.get_sheets_size()!r}')
        probe_excel(excel)
        translate_cells_directly(excel)

        out_py = os.path.join(tmp, 'main_out.py')
        parser = Parser().set_excel_file_path(xlsx)
        parser.write_translation(out_py)
        text = parser.get_translation()
        emit(f'class text sha256 {hashlib.sha256(text.encode()).hexdigest()}')
        for name, code in function_lines(text):
            emit(f'  {name}: {code}')
        executor = Executor().set_executed_class(class_file=out_py)
        emit(f'titles {executor.get_executed_class().get_titles()!r} sizes {executor.get_executed_class().get_sheets_size()!r}')
        for title in ['const', 'formulas', 'sparse', 'empty']:
            for row in executor.get_sheet(title):
                for cell in row:
                    try:
                        emit(f'  {title} ({cell.column},{cell.row}) {show(cell.value)}')
                    except Exception as e:  # noqa
                        emit(f'  {title} ({cell.column},{cell.row}) raised {type(e).__name__}')
        # stored constants come back exactly
        for i, v in enumerate(CONSTANTS):
            got = executor.get_cell(Cell('const', (i % 5) * 2, i // 5)).value
            emit(f'constant {i} {show(v)} -> {show(got)}')
        # one entry point at a time: only the needed cells are fetched and translated
        for i, formula in enumerate(formulas):
            try:
                one = Parser().set_excel_file_path(xlsx).set_entrypoint_cell(Cell('formulas', 'A', str(i + 1))).get_translation()
                emit(f'entry {formula} -> ' + ' ; '.join(f'{n}: {c}' for n, c in function_lines(one)))
            except Exception as e:  # noqa
                emit(f'entry {formula} raised {type(e).__name__}')
    finally:
        shutil.rmtree(tmp, ignore_errors=True)
    emit(f'lines: {len(LINES)}')
    print('sha256:', hashlib.sha256('\n'.join(LINES).encode('utf-8')).hexdigest())


if __name__ == '__main__':
    main()
