"""Equivalence demo for r3 (runtime helpers _count, _min/_max, _count_blank in both copies).

Part 1 calls the helpers of both copies of the runtime class directly (the class in
abstract_excel_in_python_class.py and the class generated from the template in context.py) on a
large battery of flat lists, including boundary ones, and prints values / exception class names.
Part 2 translates a workbook full of aggregate formulas over rows, columns, rectangles, whole
columns, several areas and other sheets, evaluates every formula (also after set_cells overrides)
and prints the values. The generated text is deliberately not digested: it legitimately differs.
"""
import datetime
import itertools
import math
import os
import random
import shutil
import tempfile
import warnings

warnings.filterwarnings('ignore')  # the runtime template triggers a SyntaxWarning that names the tree path

from openpyxl import Workbook  # noqa: E402

from excel2pycl import Parser, Executor, Cell  # noqa: E402
from excel2pycl.src.object_loader import load_module  # noqa: E402
from excel2pycl.src.utilities.abstract_excel_in_python_class import AbstractExcelInPython  # noqa: E402


class Direct(AbstractExcelInPython):
    pass


def show(value):
    if isinstance(value, list):
        return '[' + ', '.join(show(v) for v in value) + ']'
    if isinstance(value, float) and math.isnan(value):
        return 'float:nan'
    return f'{type(value).__name__}:{value!r}'


def attempt(function, *args):
    try:
        return show(function(*args))
    except BaseException as error:  # noqa
        return f'EXC {type(error).__name__}: {error}'


def battery(instance):
    empty = instance.EmptyCell()
    dt = datetime.datetime(2024, 2, 29, 12, 30)
    day = datetime.date(2024, 3, 1)
    atoms = [0, 1, -1, 2.5, -0.0, 10 ** 20, 1e308, float('inf'), float('-inf'), True, False, None, '', ' ', 'a', '7',
             '-7', '7.5', '٣', '²', '#N/A', '#DIV/0!', '#VALUE!', '#REF!', '#NUM!', '#NAME?', '#NULL!', '#DIV0!',
             '#ERROR!', empty, dt, day, 3, 3.0]
    lists = [[], [None], [''], [empty], [True], [False], ['a'], ['#N/A'], [0], [0.0], [dt], [day],
             [1, 2, 3], [3, 2, 1], [1.5, 1, True], [None, '', empty, 0, False], ['#N/A', '#REF!'], ['#REF!', '#N/A'],
             [1, '#NUM!', 5], [float('nan'), 1], [1, float('nan')], [10 ** 20, 1e20], [-0.0, 0], [0, -0.0],
             ['7', 7], [True, 2], [empty, empty], [dt, 1, day], [[1, 2]], [[1], 2], ['', None, '', 'x', ' '],
             [1, 1, 1], [2, 2.0], [2.0, 2]]
    rnd = random.Random(49)
    for _ in range(250):
        lists.append([rnd.choice(atoms) for _ in range(rnd.randrange(0, 9))])
    return atoms, lists


def direct_part(label, instance):
    atoms, lists = battery(instance)
    for index, values in enumerate(lists):
        print(label, index, show(values) if index < 34 else len(values),
              '| min', attempt(instance._min, list(values)),
              '| max', attempt(instance._max, list(values)),
              '| blank', attempt(instance._count_blank, list(values)),
              '| sum', attempt(instance._sum, list(values)),
              '| avg', attempt(instance._average, list(values)),
              '| and', attempt(instance._and, list(values)),
              '| or', attempt(instance._or, list(values)))
    # min/max of the numeric sub list as the MAX translator passes it
    for index, values in enumerate(lists[:80]):
        numeric = instance._only_numeric_list(values)
        print(label, 'numeric', index, show(numeric), attempt(instance._max, numeric), attempt(instance._min, numeric))
    # _count(matrices, args, args_cells)
    rnd = random.Random(4900)
    for index in range(300):
        matrices = [[[rnd.choice(atoms) for _ in range(rnd.randrange(0, 4))] for _ in range(rnd.randrange(0, 4))]
                    for _ in range(rnd.randrange(0, 3))]
        args = [rnd.choice(atoms) for _ in range(rnd.randrange(0, 5))]
        cells = [rnd.choice(atoms) for _ in range(rnd.randrange(0, 5))]
        print(label, 'count', index, attempt(instance._count, matrices, args, cells))
    for matrices, args, cells in [
        ([], [], []), ([[]], [], []), ([[[]]], [], []), ([[[1, 2], [3, 'x']]], [True, '5', 5], [7, None]),
        ([[[1]]], (1, 2), []), ([[[1]]], [], (1, 2)), ([[[1]]], (True,), (1,)), (None, [], []), ([[[1]]], None, []),
        ([[[1]]], [], None), (((1, 2),), [], []), ([1, [2, [3, [4]]]], ['1', '', 'x1'], [True]),
        ([[[datetime.datetime(2020, 1, 1)]]], [datetime.datetime(2020, 1, 1), datetime.date(2020, 1, 1)],
         [datetime.datetime(2020, 1, 1)]),
    ]:
        print(label, 'count special', attempt(instance._count, matrices, args, cells))
    # argument objects are not modified
    values = [3, 'x', None, 1]
    matrices, args, cells = [[[1, 'a']]], [True, '3'], [2]
    instance._min(values), instance._max(values), instance._count_blank(values), instance._count(matrices, args, cells)
    print(label, 'untouched', values, matrices, args, cells)
    # generators and tuples as input
    print(label, 'tuple', attempt(instance._min, (3, 1, 2)), attempt(instance._max, (3, 1, 2)),
          attempt(instance._count_blank, (None, '', 1)))
    print(label, 'generator', attempt(instance._min, (i for i in [3, 1, 2])),
          attempt(instance._max, (i for i in [3, 1, 2])), attempt(instance._count_blank, (i for i in [None, '', 1])))
    print(label, 'none', attempt(instance._min, None), attempt(instance._max, None),
          attempt(instance._count_blank, None))
    print(label, 'has helpers', [hasattr(instance, name) for name in ('_min', '_max', '_count', '_count_blank')])


FORMULAS = [
    '=SUM(A1:A6)', '=SUM(A1:D1)', '=SUM(A1:D6)', '=SUM(A:A)', '=SUM(A:B)', '=SUM(A1:B3, C4:D6)', '=SUM(A1:A3, A4:A6)',
    '=SUM(A1:A3)+SUM(A4:A6)', '=SUM(A1:A6, A1:A6)', '=SUM(A1:D6, 5, 2.5)', '=SUM(Other!A1:C3)', "=SUM('Other'!A:A, A1:A2)",
    '=SUM(A1, B1, 4)', '=SUM(C1:C6)', '=AVERAGE(A1:A6)', '=AVERAGE(A1:D6)', '=AVERAGE(A1:B3, C4:D6)',
    '=AVERAGE(A:A)', '=AVERAGE(Other!A1:C3, A1)', '=AVERAGE(C1:C6)', '=MIN(A1:A6)', '=MIN(A1:D6)', '=MIN(A:A, B:B)',
    '=MIN(A1:B3, C4:D6, -100)', '=MIN(Other!A1:C3)', '=MIN(C1:C6)', '=MIN(E1:E6)', '=MIN(A1:E6)', '=MAX(A1:A6)',
    '=MAX(A1:D6)', '=MAX(A:A, B:B)', '=MAX(A1:B3, C4:D6, 100)', '=MAX(Other!A1:C3)', '=MAX(C1:C6)', '=MAX(E1:E6)',
    '=MAX(A1:E6)', '=COUNT(A1:A6)', '=COUNT(A1:D6)', '=COUNT(A1:D6, A1:D6)', '=COUNT(A:A)', '=COUNT(A1:B3, C4:D6)',
    '=COUNT(A1:D6, 1, "2", "x", TRUE)', '=COUNT(A1:D6, A1, C1, D1)', '=COUNT(Other!A1:C3)', '=COUNT(C1:C6)',
    '=COUNT(E1:E6)', '=COUNTBLANK(A1:A6)', '=COUNTBLANK(A1:D6)', '=COUNTBLANK(A1:B3, C4:D6)', '=COUNTBLANK(C1:C6)',
    '=COUNTBLANK(Other!A1:C3)', '=COUNTBLANK(A1:E6)', '=COUNTBLANK(H1:J3)', '=AND(A1>0, B1>0)', '=AND(A1:A2)',
    '=AND(D1:D2)', '=AND(A1, 0)', '=OR(A3>0, D1)', '=OR(D2:D3)', '=OR(B2, B3)', '=OR(A1:A6)',
    '=MAX(A1:A6)-MIN(A1:A6)+COUNT(A1:A6)', '=IFERROR(MIN(C1:C2), -1)', '=IFERROR(MAX(C1:C2), -1)',
    '=IFERROR(AVERAGE(C1:C2), -2)', '=SUM(A1:A6)/COUNT(A1:A6)', '=MIN(5)', '=MAX(5, 7.5)', '=MIN(G1:G6)', '=MAX(G1:G6)',
]


def build_book(path):
    wb = Workbook()
    ws = wb.active
    ws.title = 'Data'
    rows = [(1, 2.5, 'x', True, 5), (4, None, '7', False, '#N/A'), (-3, 0, '', 10, 2), (8, 9, 'abc', 2, None),
            (None, None, None, None, '#DIV/0!'), (5.5, -5, ' ', 5, 1)]
    for row, values in enumerate(rows, 1):
        for column, value in enumerate(values, 1):
            ws.cell(row=row, column=column, value=value)
    ws['G1'] = datetime.datetime(2024, 1, 1)
    ws['G2'] = 3
    for index, formula in enumerate(FORMULAS, 1):
        ws.cell(row=index, column=12, value=formula)
    other = wb.create_sheet('Other')
    for row, values in enumerate([(10, 20, 30), (40, 'q', None), (True, '', 1.25)], 1):
        for column, value in enumerate(values, 1):
            other.cell(row=row, column=column, value=value)
    wb.save(path)


def workbook_part():
    tmp = tempfile.mkdtemp(prefix='t49r3_')
    try:
        xlsx, out_py = os.path.join(tmp, 'book.xlsx'), os.path.join(tmp, 'book.py')
        build_book(xlsx)
        Parser().set_excel_file_path(xlsx).write_translation(out_py)

        def values(executor):
            result = []
            for row in range(len(FORMULAS)):
                try:
                    result.append(show(executor.get_cell(Cell(0, 11, row)).value))
                except BaseException as error:  # noqa
                    result.append(f'EXC {type(error).__name__}: {error}')
            return result

        executor = Executor().set_executed_class(class_file=out_py)
        for formula, value in zip(FORMULAS, values(executor)):
            print('formula', formula, '->', value)
        overrides = [
            [Cell(0, 0, 0, value=100)], [Cell('Data', 'B', '2', value=-50.5)], [Cell(0, 2, 0, value=3)],
            [Cell(0, 0, 4, value='#REF!')], [Cell(0, 0, 4, value=''), Cell(0, 1, 4, value=None)],
            [Cell(0, 3, 0, value=False), Cell(0, 3, 1, value=True)], [Cell(1, 0, 0, value='text')],
            [Cell(0, 0, r, value=None) for r in range(6)], [Cell(0, 0, r, value='s') for r in range(6)],
        ]
        for index, cells in enumerate(overrides):
            executor.set_cells(cells)
            print('override', index, values(executor))
        module = load_module(out_py)
        direct_part('generated', module.ExcelInPython())
        for entry in (0, 20, 36, 46, 53):
            py = os.path.join(tmp, f'entry{entry}.py')
            Parser().set_excel_file_path(xlsx).set_entrypoint_cell(Cell(0, 11, entry)).write_translation(py)
            print('entry', entry, show(Executor().set_executed_class(class_file=py).get_cell(Cell(0, 11, entry)).value))
    finally:
        shutil.rmtree(tmp, ignore_errors=True)


if __name__ == '__main__':
    direct_part('class', Direct())
    workbook_part()
