"""Equivalence demonstration: prints a deterministic digest; run on the unchanged and the refactored tree."""
import warnings
warnings.simplefilter("ignore")
import datetime
import hashlib
import os
import shutil
import sys
import tempfile

import openpyxl

from excel2pycl import Parser, Executor, Cell

DATA = {
    'A1': 7, 'A2': 2.5, 'A3': 'abc', 'A4': '12', 'A5': None, 'A6': True, 'A7': False,
    'A8': 0, 'A9': -3, 'A10': '#N/A', 'A11': '#DIV/0!', 'A12': datetime.datetime(2024, 2, 29),
    'A13': '', 'A14': 0.1, 'A15': 1e-7, 'A16': 'ABC', 'A17': '2024-02-29', 'A18': 1234567890123,
}


def functions_part(text):
    marker = "        return '#VALUE!'\n\n"
    return text[text.rindex(marker) + len(marker):]


def show(value):
    return f'{type(value).__name__}:{value!r}'


def run(formulas, overrides=(), tag=''):
    """formulas: list of formula strings placed in D1.. ; overrides: list of lists of (col,row,value)"""
    tmp = tempfile.mkdtemp(prefix='e2p_demo_')
    try:
        wb = openpyxl.Workbook()
        ws = wb.active
        ws.title = 'S1'
        for k, v in DATA.items():
            ws[k] = v
        for i, f in enumerate(formulas):
            ws.cell(row=i + 1, column=4).value = f
        xlsx = os.path.join(tmp, 'book.xlsx')
        wb.save(xlsx)
        for i, f in enumerate(formulas):
            line = [tag, repr(f)]
            try:
                text = Parser().set_excel_file_path(xlsx).set_entrypoint_cell(Cell(0, 3, i)).get_translation()
            except BaseException as e:
                line.append(f'TRANSLATE-EXC {type(e).__name__}: {str(e)[:200]}')
                print(' | '.join(line))
                continue
            line.append('code=' + hashlib.sha256(functions_part(text).encode()).hexdigest()[:12])
            code = functions_part(text)
            out_py = os.path.join(tmp, f'out_{i}.py')
            with open(out_py, 'w', encoding='utf-8') as fh:
                fh.write(text)
            for ov in [()] + list(overrides):
                try:
                    ex = Executor().set_executed_class(class_file=out_py)
                    if ov:
                        ex.set_cells([Cell(0, c, r, value=v) for c, r, v in ov])
                    value = ex.get_cell(Cell(0, 3, i)).value
                    line.append(show(value))
                except BaseException as e:
                    line.append(f'EXC {type(e).__name__}: {str(e)[:120]}')
            print(' | '.join(line))
            if os.environ.get('SHOWCODE'):
                print(code)
    finally:
        shutil.rmtree(tmp, ignore_errors=True)


os.environ['SHOWCODE'] = '1'

OPERANDS = ['1', '2.5', 'A1', 'A2', 'A5', '"x"', 'TRUE', '1e-3', '3%', 'A1%', '(1+2)', '(A2)', '-A9', 'IF(A1>3,1,2)']
BINARY = ['+', '-', '*', '/', '&', '=', '<>', '<', '<=', '>', '>=']


def generated():
    out = []
    for i, op in enumerate(BINARY):
        for j, left in enumerate(OPERANDS):
            right = OPERANDS[(i * 5 + j * 3 + 1) % len(OPERANDS)]
            out.append(f'={left}{op}{right}')
    # three-operand chains: precedence and associativity
    for i, op1 in enumerate(BINARY):
        op2 = BINARY[(i * 7 + 3) % len(BINARY)]
        out.append(f'=A1{op1}A2{op2}A9')
        out.append(f'=(A1{op1}A2){op2}A9')
        out.append(f'=A1{op1}(A2{op2}A9)')
        out.append(f'=-A1{op1}+A2{op2}-2')
        out.append(f'=A1%{op1}A2%{op2}50%')
    return out


FIXED = [
    '=1+2*3', '=(1+2)*3', '=2*(3+4)*5', '=((1+2))', '=-(1+2)', '=+3', '=--3', '=-2*-3', '=2*-3', '=1--1', '= 1 - - 1',
    '=10%', '=-A1%', '=50%*2', '=2*3%', '=A1%+1', '=A1%%', '=(A1+A2)%', '=10%%', '=200%%*3', '=5%&"a"', '="a"&5%',
    '=1&2+3', '=1+2&3', '=A1&A3', '=A5&"x"', '=A5&A5', '=A12&""', '=A6&A7', '=1&2&3', '=&1', '=1&',
    '=1+2=3', '=1=1=1', '=A1>A2', '=A3=A16', '=A4>5', '=A12>A17', '=A5=0', '=A5=""', '=A5<1', '=A13=A5', '==1', '=1=',
    '=A1>=A1', '=A1<=A2', '=A1<>A2', '="a"&"b"="ab"', '=("a"&"b")="ab"', '=1<2<3', '=3>2>1', '=1+1>1*1',
    '=1.5e3+1', '=1e-3', '=1e3', '=0.1+0.2', '=0.30000000000000004', '=12345678901234567890', '=1.0', '=007', '=1.50',
    '=TRUE+1', '=TRUE()', '=FALSE()&1', '=3-2-1', '=8/4/2', '=2/3*3', '=1/0', '=A8/A8', '=A5+1', '=A5*A5', '=A5-A5',
    '=A1 + A2', '=A1+', '=*2', '=1 2', '=(1+2', '=1+2)', '=()', '=', '=A3+1', '=A4+1', '=A10+1', '=-A3', '=A3%',
    '=IF(A1>3,1,2)%', '=IF(A1>3,1,2)+10%', '=SUM(A1:A2)*2+1', '=-SUM(A1:A2)', '=SUM(A1:A2)&"s"', '=SUM(A1:A2)>=9.5',
    '=(IF(A1,1,2)+3)*(4-A2)', '=A18*1000', '=A14+A14+A14', '=A14*3=0.3', '=A15*A15', '=30%+70%', '=(30%)+(70%)',
]

run(generated() + FIXED,
    overrides=[[(0, 0, 100), (0, 1, -1.5)], [(0, 0, None)], [(0, 0, 'zz'), (0, 4, 3)], [(0, 0, True), (0, 8, 0)]],
    tag='r1')
