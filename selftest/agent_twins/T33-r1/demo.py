"""Equivalence demo for the CellTranslator clean-up (C03: entry-point slices and cycles).

Builds several workbooks in a temp dir, translates them whole and from many entry cells,
calls the CellTranslator class methods directly, and prints a deterministic digest.
"""
import warnings
warnings.simplefilter("ignore")

import hashlib
import os
import re
import shutil
import sys
import tempfile

from openpyxl import Workbook

from excel2pycl import Parser, Executor, Cell
from excel2pycl.src.context import Context
from excel2pycl.src.excel import Excel
from excel2pycl.src.translators import CellTranslator

sys.setrecursionlimit(10000)
TMP = tempfile.mkdtemp(prefix='t33r1_')


def h(text):
    return hashlib.sha256(text.encode('utf-8')).hexdigest()[:16]


def show(value):
    return f'{type(value).__name__}:{value!r}'


def build(name, sheets):
    wb = Workbook()
    first = True
    for title, rows in sheets:
        ws = wb.active if first else wb.create_sheet(title)
        ws.title = title
        first = False
        for row in rows:
            ws.append(row)
    path = os.path.join(TMP, name)
    wb.save(path)
    wb.close()
    return path


def functions_of(text):
    """name -> body of every generated cell function in the class text."""
    return dict(re.findall(r'^    def (_\d+_\d+_\d+(?:_\d+)?)\(self\):\n        return (.*)$', text, re.M))


def run(label, fn):
    try:
        result = fn()
        print(label, 'OK', result)
        return result
    except BaseException as e:  # noqa
        print(label, 'EXC', type(e).__name__, str(e)[:200])
        return None


MAIN = [
    # A            B                 C                          D                               E
    [1,            '=A1+1',          '=SUM(A1:A4)',             '=SUM(A1:B3)',                   "='Other sheet'!A1*2"],
    [2,            '=B1*A2',         '=SUM(A1:D1)',             '=VLOOKUP(3, A1:B4, 2, FALSE())', '=aux!B2+E1'],
    [3,            '=IF(A3>2, B2, A1)', '=SUMIF(A1:A4, ">1")',  '=MAX(A:A)',                      '=SUM(aux!A1:A3)'],
    [4,            'text',           '=COUNT(A1:B4)',           '=AVERAGE(A1:A4)',               "=SUM('Other sheet'!A1:B2)"],
    [None,         '=A5',            '=Z99',                    '=MIN(B1:B3)+C1',                '=E1+E2+E3+E4'],
    ['=1+2',       '="a"&"b"',       '=TRUE()',                 '=ROUND(D4/3, 2)',               '=IFERROR(A1/0, 7)'],
]
OTHER = [
    [10, '=A1+main!A1'],
    ['=B1+1', '=SUM(main!A1:A4)+A2'],
]
AUX = [
    [5, 6],
    [7, '=A1+A2+\'Other sheet\'!B2'],
    ['=main!E1', 9],
]

good = build('good.xlsx', [('main', MAIN), ('Other sheet', OTHER), ('aux', AUX)])

# ---------------------------------------------------------------- whole-file translation
whole_text = Parser().set_excel_file_path(good).get_translation()
print('whole text', h(whole_text), len(functions_of(whole_text)))
whole_py = os.path.join(TMP, 'whole.py')
Parser().set_excel_file_path(good).write_translation(whole_py)
whole = Executor().set_executed_class(class_file=whole_py)
whole_values = {}
for sheet, rows in enumerate((MAIN, OTHER, AUX)):
    for r in range(len(rows) + 1):
        for c in range(6):
            try:
                v = show(whole.get_cell(Cell(sheet, c, r)).value)
            except BaseException as e:  # noqa
                v = 'EXC ' + type(e).__name__
            whole_values[(sheet, c, r)] = v
            print('whole', sheet, c, r, v)

# ---------------------------------------------------------------- every cell as entry point
for sheet, rows in enumerate((MAIN, OTHER, AUX)):
    for r in range(len(rows) + 1):
        for c in range(6):
            entry = Cell(sheet, c, r)
            try:
                text = Parser().set_excel_file_path(good).set_entrypoint_cell(entry).get_translation()
            except BaseException as e:  # noqa
                print('entry', sheet, c, r, 'EXC', type(e).__name__, str(e)[:120])
                continue
            fns = functions_of(text)
            out = os.path.join(TMP, f'e_{sheet}_{c}_{r}.py')
            with open(out, 'w', encoding='utf-8') as f:
                f.write(text)
            ex = Executor().set_executed_class(class_file=out)
            agree = True
            for name in fns:
                parts = name.split('_')[1:]
                if len(parts) != 3:
                    continue
                key = tuple(int(p) for p in parts)
                try:
                    v = show(ex.get_cell(Cell(*key)).value)
                except BaseException as e:  # noqa
                    v = 'EXC ' + type(e).__name__
                agree = agree and (v == whole_values.get(key, v))
            print('entry', sheet, c, r, h(text), sorted(fns), 'agree' if agree else 'DISAGREE',
                  show(ex.get_cell(Cell(sheet, c, r)).value))
            os.remove(out)

# A1-style / title addressed entry points
for title, col, row in [('main', 'E', '5'), ('Other sheet', 'B', '2'), ('aux', 'A', '3'), ('main', 'ZZ', '400'),
                        ('nope', 'A', '1'), ('main', 'A', ''), (0, 'A', 1), (7, 0, 0), (0, -1, 0), (-1, 0, 0)]:
    run(f'entry-a1 {title!r} {col!r} {row!r}',
        lambda: h(Parser().set_excel_file_path(good).set_entrypoint_cell(Cell(title, col, row)).get_translation()))

# ---------------------------------------------------------------- cyclic workbooks
CYCLES = {
    'self': [('s', [['=A1+1']])],
    'two': [('s', [['=B1+1', '=A1+1']])],
    'three_far': [('s', [[1, '=C1', '=D1', '=B1+A1']])],
    'range': [('s', [['=SUM(B1:B3)', 1], [None, '=A1'], [None, 3]])],
    'matrix': [('s', [['=SUM(B1:C2)', 1, 2], [None, 3, '=A1']])],
    'column': [('s', [[1, '=MAX(A:A)'], ['=B1', 2]])],
    'sheets': [('s', [["=t!A1"]]), ('t', [['=s!A1']])],
    'if_branch': [('s', [['=IF(TRUE(), 1, A1)']])],
    'no_cycle_diamond': [('s', [['=B1+C1', '=D1', '=D1', 5]])],
    'tail': [('s', [[1, '=A1', '=D1', '=C1']])],
    'vlookup': [('s', [['=VLOOKUP(1, A1:B2, 2, FALSE())', 2], [1, 3]])],
    'sumif': [('s', [[1, '=SUMIF(A1:B2, ">0")'], [2, 3]])],
}
for name, sheets in CYCLES.items():
    path = build(f'cyc_{name}.xlsx', sheets)
    run(f'cycle {name} whole', lambda: h(Parser().set_excel_file_path(path).get_translation()))
    for sheet_index, (title, rows) in enumerate(sheets):
        for r in range(len(rows)):
            for c in range(len(rows[0])):
                run(f'cycle {name} entry {title}!{c},{r}',
                    lambda: h(Parser().set_excel_file_path(path).set_entrypoint_cell(Cell(sheet_index, c, r))
                              .get_translation()))

# ---------------------------------------------------------------- direct calls of the translator
excel = Excel.parse(good)
ctx = Context()
ctx._titles, ctx._sheets_size = excel.get_titles(), excel.get_sheets_size()
for cell in [Cell(0, 0, 0), Cell(0, 0, 0), Cell(0, 1, 1), Cell('main', 'C', '3'), Cell(0, 0, 4), Cell(0, 1, 3),
             Cell(0, 25, 98), Cell(0, 0, 5), Cell(0, 2, 5), Cell(1, 1, 1), Cell('aux', 'B', '2')]:
    run(f'translate {cell}', lambda: CellTranslator.translate(cell, excel, ctx))
    print('   state', h(repr(sorted(ctx._cell_translations.items()))), h(repr(sorted(ctx._sub_cell_translations.items()))),
          sorted(ctx._cells_in_progress), cell.value if not isinstance(cell.value, str) else h(cell.value))
for bad in [Cell(0, 'A', 1), Cell(0, 0, None), Cell('zzz', 'A', '1'), Cell(0, 0, '3')]:
    run(f'translate-bad {bad}', lambda: CellTranslator.translate(bad, excel, ctx))
print('ctx class', h(ctx.build_class()))

# a pre-seeded context: an already translated cell is not translated again, value strings not starting with "="
ctx2 = Context()
seed = Cell(0, 1, 0)
excel.fill_cell(seed)
ctx2.set_cell(seed, '12345')
run('seeded', lambda: CellTranslator.translate(Cell(0, 1, 1), excel, ctx2))
print('seeded map', sorted(ctx2._cell_translations.items()))
res = CellTranslator._set_cell_to_context(Cell(0, 1, 3), excel, ctx2)
print('tuple', res[0], res[1] is excel, res[2] is ctx2, ctx2._cell_translations['_0_1_3'])
# cycle state after a rejected translation stays as the library leaves it
cyc = Excel.parse(os.path.join(TMP, 'cyc_two.xlsx'))
ctx3 = Context()
run('direct cycle', lambda: CellTranslator.translate(Cell(0, 0, 0), cyc, ctx3))
print('in progress', sorted(ctx3._cells_in_progress), sorted(ctx3._cell_translations))
run('direct cycle again', lambda: CellTranslator.translate(Cell(0, 1, 0), cyc, ctx3))
print('in progress', sorted(ctx3._cells_in_progress), sorted(ctx3._cell_translations))
ctx4 = Context()
run('translate_file good', lambda: CellTranslator.translate_file(excel, ctx4))
print('file class', h(ctx4.build_class()), len(ctx4._cell_translations), len(ctx4._sub_cell_translations))
run('translate_file cyc', lambda: CellTranslator.translate_file(cyc, Context()))

shutil.rmtree(TMP)
print('tmp removed', not os.path.exists(TMP))
