"""Equivalence demo for r3: Executor.set_cells (sheet size bookkeeping) and Executor.get_sheet (grid construction).

Builds workbooks, translates them, and then replays many query / override schedules (fixed ones and seeded random
ones) against fresh Executors, printing after every step the result or exception class, the recorded overrides,
the sheet sizes seen by the executor and by the generated instance, and whether the whole-sheet grid agrees with
single-cell queries.
"""
import copy
import hashlib
import os
import random
import sys
import tempfile

from openpyxl import Workbook

from excel2pycl import Cell, Parser, Executor, AbstractExcelInPython

OUT = []


def emit(*parts):
    line = ' | '.join(str(p) for p in parts)
    OUT.append(line)
    print(line)


def guarded(fn):
    try:
        return 'ok', fn()
    except BaseException as e:  # noqa
        return 'exc', type(e).__name__


def short(v):
    return f'{type(v).__name__}:{v!r}'


tmp = tempfile.mkdtemp(prefix='r3demo')
xlsx = os.path.join(tmp, 'wb.xlsx')
out_py = os.path.join(tmp, 'wb.py')
wb = Workbook()
ws = wb.active
ws.title = 'Main'
ws.append([1, 2, '=A1+B1', '=SUM(A1:C1)', 'txt'])
ws.append([10, None, '=A2*2', '=IF(B2="",C2,B2)', "it's"])
ws.append(['=Other!A1+1', '=C1&E1', None, None, None, '=F5'])
ws2 = wb.create_sheet('Other')
ws2.append(['=Main!A1*100', 5])
ws2.append([None, '=A1+B1+Main!B2'])
ws3 = wb.create_sheet('Empty')
wb.save(xlsx)
Parser().set_excel_file_path(xlsx).write_translation(out_py)


def state(executor):
    inst = executor.get_executed_class()
    return ('sizes', executor._sheets_size, 'inst sizes', inst.get_sheets_size(), 'same obj',
            executor._sheets_size is inst.get_sheets_size(),
            'overrides', [(k, short(c.value), c.title, c.column, c.row) for k, c in executor._cells.items()],
            'changed', executor._cells_have_been_changed, 'args', sorted(inst._arguments.items(), key=repr))


def grid(executor, sheet):
    status, res = guarded(lambda: executor.get_sheet(sheet))
    if status == 'exc':
        return 'EXC ' + res
    shape = [len(r) for r in res]
    vals = [[short(c.value) for c in row] for row in res]
    coords = all(c.title == (executor._titles[sheet] if type(sheet) is str else sheet) and c.row == r and c.column == k
                 and c.has_handled_identifiers()
                 for r, row in enumerate(res) for k, c in enumerate(row))
    idx = executor._titles[sheet] if type(sheet) is str else sheet
    agree = all(short(executor.get_cell(Cell(idx, k, r)).value) == vals[r][k]
                for r, row in enumerate(res) for k, _ in enumerate(row))
    return f'shape {shape} coords {coords} agree {agree} vals {vals}'


def fresh():
    return Executor().set_executed_class(class_file=out_py)


class Str(str):
    pass


# ---------------------------------------------------------------- fixed schedules
def step(executor, label, fn):
    status, res = guarded(fn)
    emit('  ', label, status, res if status == 'exc' else '')
    emit('     ', *state(executor))


emit('== initial grids')
ex = fresh()
for sheet in [0, 1, 2, 'Main', 'Other', 'Empty', 3, -1, -3, -4, 'Nope', None, 1.0, True, Str('Main'), b'Main', (0,)]:
    emit('grid', repr(sheet), grid(ex, sheet))
emit(*state(ex))

emit('== overrides inside the used range')
ex = fresh()
step(ex, 'set A1=5', lambda: ex.set_cells([Cell(0, 0, 0, value=5)]))
emit('grid 0', grid(ex, 0))
emit('grid Other', grid(ex, 'Other'))
step(ex, 'set Main!B2 by title', lambda: ex.set_cells([Cell('Main', 'B', '2', value='over')]))
emit('grid Main', grid(ex, 'Main'))
step(ex, 'same cell again, two in one call', lambda: ex.set_cells([Cell(0, 1, 1, value=1), Cell('Main', 'B', '2', value=2)]))
emit('grid 0', grid(ex, 0))
step(ex, 'empty list', lambda: ex.set_cells([]))
emit('grid 0', grid(ex, 0))

emit('== overrides beyond the used range')
ex = fresh()
step(ex, 'set Main!H2', lambda: ex.set_cells([Cell('Main', 'H', '2', value=8)]))
emit('grid 0', grid(ex, 0))
step(ex, 'set Main!B7', lambda: ex.set_cells([Cell(0, 1, 6, value='b7')]))
emit('grid 0', grid(ex, 0))
step(ex, 'set Main!F5 (feeds F3)', lambda: ex.set_cells([Cell(0, 5, 4, value=55)]))
emit('grid 0', grid(ex, 0))
step(ex, 'set Empty!C2 and Other!A3', lambda: ex.set_cells([Cell('Empty', 'C', '2', value=None), Cell(1, 0, 2, value=0.5)]))
for sheet in (0, 1, 2, 'Empty'):
    emit('grid', sheet, grid(ex, sheet))
step(ex, 'exact corner Main!H7', lambda: ex.set_cells([Cell(0, 7, 6, value='corner')]))
emit('grid 0', grid(ex, 0))
step(ex, 'one before corner', lambda: ex.set_cells([Cell(0, 6, 5, value='inner')]))
emit('grid 0', grid(ex, 0))
emit('a second executor on the same file is unaffected', *state(fresh()))

emit('== rejected overrides (state after each failure)')
ex = fresh()
good = Cell(0, 9, 0, value='g')
BAD = [
    ('unknown title', lambda: [Cell(0, 0, 8, value=1), Cell('Nope', 'A', '1', value=1), Cell(0, 11, 11, value=1)]),
    ('row None', lambda: [Cell(0, 8, 0, value=1), Cell('Main', 'A', value=1)]),
    ('empty row string', lambda: [Cell('Main', 'A', '', value=1)]),
    ('sheet index 3', lambda: [Cell(3, 0, 0, value=1)]),
    ('sheet index -1', lambda: [Cell(-1, 30, 0, value=1)]),
    ('sheet index -4', lambda: [Cell(-4, 0, 0, value=1)]),
    ('negative row/col', lambda: [Cell(0, -5, -7, value='neg')]),
    ('float coords', lambda: [Cell(0, 1.5, 2.5, value='f', _handled_identifiers=True)]),
    ('float sheet', lambda: [Cell(0.0, 1, 2, value='f', _handled_identifiers=True)]),
    ('str column handled', lambda: [Cell(0, 'A', 3, value='f', _handled_identifiers=True)]),
    ('row ok, column None', lambda: [Cell(0, None, 40, value='f', _handled_identifiers=True)]),
    ('row str uncomparable', lambda: [Cell(0, 2, '41', value='f', _handled_identifiers=True)]),
    ('complex column: row recorded, column fails', lambda: [Cell(0, 1 + 2j, 12, value='c', _handled_identifiers=True)]),
    ('bad column letters', lambda: [Cell('Main', 'A1', '1', value=1)]),
    ('bad row digits', lambda: [Cell('Main', 'A', 'x', value=1)]),
    ('not a list', lambda: None),
    ('tuple of cells', lambda: (Cell(2, 1, 1, value='t'),)),
    ('generator', lambda: (c for c in [Cell(2, 2, 2, value='gen')])),
    ('good one', lambda: [good]),
    ('same object again', lambda: [good, good]),
]
for label, make in BAD:
    step(ex, label, lambda: ex.set_cells(make()))
for sheet in (0, 1, 2):
    emit('grid', sheet, grid(ex, sheet))

emit('== sizes without keys / class_object mode')


class Hand(AbstractExcelInPython):
    def __init__(self, arguments=None):
        super().__init__(arguments)
        self._titles = {'T': 0, 'U': 1, 'V': 2}
        self._sheets_size = [{'last_row': 2, 'last_column': 3}, {}, {'last_row': 2}]

    def _0_0_0(self):
        return self._cell_preprocessor('_0_1_0') + 1

    def _0_1_0(self):
        return 41

    def _0_2_1(self):
        return self._cell_preprocessor('_0_9_9')


ex = Executor().set_executed_class(class_object=Hand)
for sheet in (0, 1, 2, 'T', 'U', 'V'):
    emit('grid', sheet, grid(ex, sheet))
step(ex, 'set in sheet without keys', lambda: ex.set_cells([Cell(1, 0, 0, value=1)]))
step(ex, 'set in sheet with only last_row', lambda: ex.set_cells([Cell(2, 0, 5, value=1)]))
step(ex, 'set T!J10', lambda: ex.set_cells([Cell('T', 'J', '10', value=100)]))
for sheet in (0, 1, 2):
    emit('grid', sheet, grid(ex, sheet))
status, res = guarded(lambda: Executor().set_executed_class())
emit('no class', status, res)

# ---------------------------------------------------------------- seeded random schedules
emit('== random schedules')
TITLES = ['Main', 'Other', 'Empty']
for seed in range(40):
    rng = random.Random(seed)
    ex = fresh()
    log = []
    for n in range(rng.randint(3, 12)):
        op = rng.choice(['get', 'get', 'gets', 'sheet', 'set', 'set', 'setmany'])
        s = rng.randrange(3)
        c, r = rng.randrange(0, 9), rng.randrange(0, 9)
        if op == 'get':
            cell = Cell(s, c, r) if rng.random() < 0.5 else Cell(TITLES[s], 'ABCDEFGHI'[c], str(r + 1))
            status, res = guarded(lambda: ex.get_cell(cell).value)
            log.append(('get', s, c, r, status, short(res)))
        elif op == 'gets':
            cells = [Cell(s, (c + k) % 9, r) for k in range(3)]
            status, res = guarded(lambda: [short(x.value) for x in ex.get_cells(cells)])
            log.append(('gets', s, c, r, status, res))
        elif op == 'sheet':
            log.append(('sheet', s, grid(ex, s if rng.random() < 0.5 else TITLES[s])))
        elif op == 'set':
            value = rng.choice([None, 0, 1, 2.5, 'x', "q'", True, ''])
            cell = Cell(s, c, r, value=value) if rng.random() < 0.5 else Cell(TITLES[s], 'ABCDEFGHI'[c], str(r + 1), value=value)
            status, res = guarded(lambda: ex.set_cells([cell]))
            log.append(('set', s, c, r, short(value), status))
        else:
            cells = [Cell(rng.randrange(3), rng.randrange(9), rng.randrange(9), value=rng.randrange(100)) for _ in range(rng.randint(0, 4))]
            if rng.random() < 0.3:
                cells.insert(rng.randrange(len(cells) + 1), Cell(rng.choice(['Nope', 3, 0]), rng.choice(['A', 0]), rng.choice([None, '2', 1])))
            before = copy.deepcopy(ex._sheets_size)
            status, res = guarded(lambda: ex.set_cells(cells))
            log.append(('setmany', [(x.title, x.column, x.row) for x in cells], status, res if status == 'exc' else '',
                        'sizes moved', before != ex._sheets_size))
        log.append(state(ex))
    final = [grid(ex, s) for s in range(3)]
    blob = repr((log, final))
    emit('seed', seed, 'steps', len(log) // 2, 'sizes', ex._sheets_size, 'sha', hashlib.sha256(blob.encode()).hexdigest()[:20])
    if seed < 4:
        for entry in log:
            emit('    ', *entry)
        for g in final:
            emit('    ', g)

emit('DIGEST', hashlib.sha256('\n'.join(OUT).encode('utf-8', 'backslashreplace')).hexdigest())
sys.exit(0)
