"""Equivalence demonstration for the code that prints workbook text into the generated module
(LiteralToken -> python source of a literal, CellTranslator -> python source of a constant cell).

Run as: PYTHONPATH=<tree> /venv/bin/python demo.py
Prints a deterministic digest; must be identical on the unchanged and on the refactored tree.
"""
import builtins
import datetime
import hashlib
import os
import shutil
import sys
import tempfile

sys.dont_write_bytecode = True
sys.stdout.reconfigure(encoding='utf-8', errors='backslashreplace')

from openpyxl import Workbook

from excel2pycl import Parser, Executor, Cell
from excel2pycl.src.context import Context
from excel2pycl.src.lexer import Lexer
from excel2pycl.src.tokens import LiteralToken
from excel2pycl.src.translators import CellTranslator

FLAG = 'T57_R1_EXECUTED'
PAYLOAD = f'setattr(__import__("builtins"), "{FLAG}", 1)'

HOSTILE_TEXTS = [
    'plain', '', ' ', "it's", 'say "hi"', "'", "''", "'''", '"', '""', '"""', '\\', '\\\\', "\\'", '\\"', 'a\\nb',
    'line1\nline2', 'tab\there', 'trailing newline\n', '\x00nul', 'unicode é 中 \U0001f600', '{braces} {0} {{x}}',
    '%s %d', '#REF!', '#N/A', 'TRUE', 'FALSE', '123', '1.5', '1e5', ' =1+1', 'a=b', "' + " + PAYLOAD + " + '",
    '" + ' + PAYLOAD + ' + "', "''' + " + PAYLOAD + " + '''", '\\\' + ' + PAYLOAD + ' + \\\'',
    "')\n        " + PAYLOAD + "\n        ('", '__import__("os").getcwd()', 'eval("1+1")', 'SUM(A1)', 'sum(A1)',
    'self._arguments', 'lambda x: x', '\\x41\\u0041\\N{BULLET}', 'f"{1+1}"', "b'bytes'", 'x' * 300,
]

# texts that may stand between double quotes inside a formula (no double quote, no line break inside)
LITERAL_TEXTS = [t for t in HOSTILE_TEXTS if '"' not in t and '\n' not in t and '\r' not in t and '\x00' not in t]

CONSTANTS = [
    0, 1, -1, 42, 2 ** 40, 0.0, -0.0, 1.5, -2.25, 1e300, 1e-300, 0.1 + 0.2, True, False, None,
    datetime.datetime(2020, 2, 29, 13, 14, 15), datetime.datetime(1999, 12, 31), datetime.date(2024, 1, 2),
    datetime.time(7, 8, 9),
]

TITLES = ['Sheet', "it's", 'two words', "a'b''c", '{0}', 'x"y', "'+" + 'str(1)' + "+'", 'back\\slash', 'ué']


def show(value):
    return f'{type(value).__name__}:{value!r}'


def failure(error):
    return 'raised ' + type(error).__name__ + ': ' + str(error).replace('\n', '\\n')[:200]


def translate(directory, name, fill, safety):
    """Builds a workbook with fill(workbook), translates it; answers (lines, executor or None)."""
    wb = Workbook()
    fill(wb)
    xlsx = os.path.join(directory, name + '.xlsx')
    module = os.path.join(directory, name + '_translation.py')
    wb.save(xlsx)
    lines = []
    parser = Parser().set_excel_file_path(xlsx)
    parser = parser.enable_safety_check() if safety else parser.disable_safety_check()
    try:
        text = parser.get_translation()
        parser.write_translation(module)
    except BaseException as error:  # noqa
        lines.append(f'{name} safety={safety} translation ' + failure(error))
        return lines, None
    functions = text[text.rindex("        return '#VALUE!'\n\n") + len("        return '#VALUE!'\n\n"):]
    lines.append(f'{name} safety={safety} generated functions sha256 '
                 + hashlib.sha256(functions.encode('utf-8')).hexdigest() + f' length {len(functions)}')
    lines.append(f'{name} safety={safety} generated module sha256 ' + hashlib.sha256(text.encode('utf-8')).hexdigest())
    lines.extend(f'{name} safety={safety} code | ' + line for line in functions.split('\n') if line.strip())
    try:
        executor = Executor().set_executed_class(class_file=module)
    except BaseException as error:  # noqa
        lines.append(f'{name} safety={safety} loading ' + failure(error))
        return lines, None
    lines.append(f'{name} safety={safety} titles {executor.get_executed_class().get_titles()!r}')
    return lines, executor


def read(executor, cell):
    try:
        return show(executor.get_cell(cell).value)
    except BaseException as error:  # noqa
        return failure(error)


def constants_workbook(directory, safety):
    values = HOSTILE_TEXTS + CONSTANTS

    def fill(wb):
        ws = wb.active
        for row, value in enumerate(values, start=1):
            try:
                ws.cell(row=row, column=1, value=value)
            except BaseException:  # illegal characters for a workbook
                ws.cell(row=row, column=1, value='unstorable')
            ws.cell(row=row, column=2, value=f'=A{row}')
            ws.cell(row=row, column=3, value=f'=CONCATENATE(A{row};"|";A{row})')

    lines, executor = translate(directory, 'constants', fill, safety)
    if executor:
        for row, value in enumerate(values):
            for column in range(3):
                got = read(executor, Cell(0, column, row))
                lines.append(f'constants safety={safety} row {row} column {column} source {show(value)} -> {got}')
            if isinstance(value, str) and '\x00' not in value:
                same = executor.get_cell(Cell(0, 0, row)).value
                lines.append(f'constants safety={safety} row {row} text kept exactly: {same == value or (value == "" and same == 0)}')
    return lines


def one_cell_workbooks(directory, safety):
    """One workbook per text, so that a rejected or unparsable text does not hide the others."""
    lines = []
    for number, text in enumerate(HOSTILE_TEXTS + ['=', '="', '=""', '="a', '=1+', "='x'", '==1', '=1e', '=TRUE', '=FALSE()',
                                                   '=007', '=1.50', '=2e3', '=2e-3', '=1.5e2', '=12345678901234567890',
                                                   '=0.1', '=""&""', '="a"&"b"', '=" = "', '="=1+1"']):
        def fill(wb, text=text):
            try:
                wb.active['A1'] = text
            except BaseException:  # illegal characters for a workbook
                wb.active['A1'] = 'unstorable'
            wb.active['B1'] = '=A1'

        name = f'single{number:03d}'
        part, executor = translate(directory, name, fill, safety)
        lines.append(f'{name} source {show(text)}')
        lines += part
        if executor:
            lines.append(f'{name} safety={safety} A1 -> ' + read(executor, Cell(0, 0, 0)))
            lines.append(f'{name} safety={safety} B1 -> ' + read(executor, Cell(0, 1, 0)))
    return lines


def literals_workbooks(directory, safety):
    lines = []
    for number, text in enumerate(LITERAL_TEXTS):
        def fill(wb, text=text):
            ws = wb.active
            ws['A1'] = f'="{text}"'
            ws['A2'] = f'=CONCATENATE("{text}";"-";"{text}")'
            ws['A3'] = f'="{text}"&"{text}"'
            ws['A4'] = f'=IF("{text}"="{text}";"{text}";"no")'
            ws['A5'] = f'=LEFT("{text}";3)'
            ws['A6'] = f'=IFERROR(MID("{text}";2;4);"{text}")'
            ws['A7'] = f'=COUNTIFS(B1:B3;"{text}")'
            ws['B1'] = text
            ws['B2'] = 'other'
            ws['B3'] = text

        name = f'literal{number:03d}'
        part, executor = translate(directory, name, fill, safety)
        lines.append(f'{name} source {show(text)}')
        lines += part
        if executor:
            for row in range(7):
                lines.append(f'{name} safety={safety} A{row + 1} -> ' + read(executor, Cell(0, 0, row)))
    return lines


def titles_workbook(directory, safety):
    lines = []
    for number, title in enumerate(TITLES):
        def fill(wb, title=title):
            ws = wb.active
            ws.title = 'first'
            ws['A1'] = 'on first'
            try:
                other = wb.create_sheet(title)
            except BaseException:  # noqa
                other = wb.create_sheet('fallback')
            other['A1'] = 'on ' + title
            other['A2'] = '=A1'
            quoted = other.title.replace("'", "''")
            ws['A2'] = f"='{quoted}'!A1"

        name = f'title{number:02d}'
        part, executor = translate(directory, name, fill, safety)
        lines.append(f'{name} source {show(title)}')
        lines += part
        if executor:
            lines.append(f'{name} safety={safety} first!A2 -> ' + read(executor, Cell(0, 0, 1)))
            lines.append(f'{name} safety={safety} second!A1 -> ' + read(executor, Cell(1, 0, 0)))
            lines.append(f'{name} safety={safety} second!A2 -> ' + read(executor, Cell(1, 0, 1)))
    return lines


def tokens_directly():
    lines = []
    in_cell = Cell(0, 0, 0)
    expressions = ['"a"', '""', '"', '"a" & "b"', '"a""b"', '"it\'s"', "\"' + 1 + '\"", '"\\"', '"\\n"', '1', '007', '1.5',
                   '1.', '.5', '1e5', '1e-5', '1.5e5', '1E5', '1e', '12345678901234567890', '1.0000000000000001',
                   '9' * 400, '1e999', 'TRUE', 'TRUE()', 'FALSE', 'FALSE()', 'TRUEX', 'true', 'FALSE(', 'A1', '', ' ',
                   '"a"rest', '1rest', '"multi\nline"', '"x"\n', '1,2', '"{0}"', '"%s"', '"é"']
    for expression in expressions:
        try:
            token, rest = LiteralToken.get(expression, in_cell)
            lines.append(f'LiteralToken.get {expression!r} -> '
                         + (f'{show(token.value)} rest {rest!r}' if token else f'no token rest {rest!r}'))
        except BaseException as error:  # noqa
            lines.append(f'LiteralToken.get {expression!r} -> ' + failure(error))

    # constructed by hand, also with values the lexer never produces
    blank = ('',) * 12
    groups = [
        blank, ('""',) + ('',) * 11, ('"a"', 'a') + ('',) * 10, ('1', '', '1') + ('',) * 9,
        ('1.5', '', '1', '.5', '.', '5') + ('',) * 6, ('1e5', '', '1', '', '', '', 'e5', '5') + ('',) * 4,
        ('TRUE',) + ('',) * 7 + ('TRUE', '', '', ''), ('FALSE',) + ('',) * 9 + ('FALSE', ''),
        ('x', '', 'x') + ('',) * 9, ('x', '', '1', '', '', '5') + ('',) * 6, ('""',), ('""', ''), ('', '', ''),
        ('1', '', '1'), ('1', '', '1', '', '', ''), ('a', 'a'), ('', '', '', '', '', '', '', '', ''),
        ['"a"', "' + x + '"] + [''] * 10, 'text', '', None, 5,
    ]
    for value in groups:
        try:
            lines.append(f'LiteralToken({value!r}) -> ' + show(LiteralToken(value, in_cell).value))
        except BaseException as error:  # noqa
            lines.append(f'LiteralToken({value!r}) -> ' + failure(error))

    for formula in ['="a"&"b"', '=IF(A1="x";"y";1.5e3)', '=CONCATENATE("\' + 1 + \'";TRUE;FALSE();12)',
                    '=SUM(1;2.5;3e2)', '="unterminated', '=1+"']:
        try:
            lines.append(f'Lexer.parse {formula!r} -> ' + repr(Lexer.parse(formula[1:], in_cell=in_cell)))
        except BaseException as error:  # noqa
            lines.append(f'Lexer.parse {formula!r} -> ' + failure(error))
    return lines


class FakeExcel:
    """Just enough of the reader for a constant cell."""

    def fill_cell(self, cell):
        cell._handled_identifiers = True
        return cell


def constant_cells_directly():
    class Text(str):
        pass

    class Noisy:
        def __repr__(self):
            return 'Noisy()'

    lines = []
    values = HOSTILE_TEXTS + CONSTANTS + [Text('sub'), Text('=1'), b'bytes', b'=1', (1, 2), [1, '='], {'a': 1}, Noisy(),
                                          float('nan'), float('inf'), 1 + 2j, '=', ' =', '\n=1']
    for value in values:
        if isinstance(value, str) and value.startswith('='):
            lines.append(f'constant {show(value)} is a formula, see the workbooks')
            continue
        context = Context()
        cell = Cell(0, 0, 0, value=value, _handled_identifiers=True)
        try:
            call = CellTranslator.translate(cell, FakeExcel(), context)
            lines.append(f'constant {show(value)} -> {call} with {context._cell_translations!r}')
        except BaseException as error:  # noqa
            lines.append(f'constant {show(value)} -> ' + failure(error))
    return lines


def main():
    lines = []
    lines += tokens_directly()
    lines += constant_cells_directly()
    directory = tempfile.mkdtemp(prefix='t57_r1_')
    try:
        for safety in (True, False):
            lines += constants_workbook(directory, safety)
            lines += one_cell_workbooks(directory, safety)
            lines += literals_workbooks(directory, safety)
            lines += titles_workbook(directory, safety)
    finally:
        shutil.rmtree(directory, ignore_errors=True)
    lines.append(f'code from the workbook executed: {hasattr(builtins, FLAG)}')

    for line in lines:
        print(line)
    print('lines', len(lines))
    print('sha256', hashlib.sha256('\n'.join(lines).encode('utf-8', 'backslashreplace')).hexdigest())


if __name__ == '__main__':
    main()
