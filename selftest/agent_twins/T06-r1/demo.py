"""Equivalence demo for r1: _count (COUNT) restructured in both copies of the runtime helper class."""
import datetime
import hashlib
import itertools
import os
import re
import tempfile
import warnings

warnings.simplefilter('ignore')  # the project's template contains '\*' in a non-raw string (SyntaxWarning noise)

from openpyxl import Workbook

from excel2pycl import Parser, Executor, Cell
from excel2pycl.src.utilities.abstract_excel_in_python_class import AbstractExcelInPython


class Direct(AbstractExcelInPython):
    pass


def show(value):
    if isinstance(value, float):
        return 'float:' + repr(value)
    return type(value).__name__ + ':' + repr(value)


def attempt(label, function, *args, **kwargs):
    try:
        result = show(function(*args, **kwargs))
    except BaseException as error:  # noqa
        result = 'RAISED ' + type(error).__name__ + ': ' + str(error)
    print(label, '=>', result)


def build_workbook(path):
    wb = Workbook()
    ws = wb.active
    ws.title = 'Data'
    rows = [
        [1, 'a', True, 10, datetime.datetime(2024, 1, 2)],
        [2, '12', False, 20.5, None],
        [3.5, '', None, -30, 'text'],
        ['x', 'ab', '', 0, 7],
        [5, '007', 7, 1e3, datetime.datetime(1999, 12, 31, 23, 59)],
        [None, None, None, None, None],
        [-2, '=A3+1', '#N/A', 4, 4, '=1/0'],
    ]
    for row in rows:
        ws.append(row)
    other = wb.create_sheet('Other')
    other.append([100, 200, 'q', True])
    other.append([None, 0.25, '5', datetime.datetime(2020, 2, 29)])
    formulas = [
        '=COUNT(A1:A7)', '=COUNT(A1:E1)', '=COUNT(A1:E7)', '=COUNT(A:A)', '=COUNT(A1:B3, D1:E7)',
        '=COUNT(Other!A1:D2)', '=COUNT(Other!A1:D2, A1:A7, 5)', '=COUNT(5)', '=COUNT(5, "7", TRUE)',
        '=COUNT("abc", "", FALSE, 2.5)', '=COUNT(A1, B2, C1, E1)', '=COUNT(A1:A7, A1:A7)',
        '=COUNT(A1:A3)+COUNT(A4:A7)', '=COUNT(A6:E6)', '=COUNT(E1:E7, E1)', '=COUNT(A1:A7, "12", B2)',
        '=COUNT(1, 2, 3, A1:B2, Other!B1)', '=COUNT(D1:D7)-COUNT(D1:D3)',
        '=SUM(A1:E7)', '=AVERAGE(D1:D7)', '=MIN(A1:B5, 0.5)', '=MAX(A1:D5)', '=COUNTBLANK(A1:E7)',
        '=SUM(A1:A7, Other!A1:D2, 5)', '=AND(C1, A1>0)', '=OR(C2, A1>5)', '=COUNT(A7:F7)', '=COUNT(A7:E7, F7)',
    ]
    for index, formula in enumerate(formulas):
        ws.cell(row=index + 1, column=8, value=formula)
    wb.save(path)
    return formulas


def generated_functions(text):
    return text[re.search(r'\n    def _\d+_', text).start():]


def main():
    tmp = tempfile.mkdtemp()
    xlsx, out = os.path.join(tmp, 'book.xlsx'), os.path.join(tmp, 'book.py')
    formulas = build_workbook(xlsx)
    Parser().set_excel_file_path(xlsx).write_translation(out)
    text = open(out, encoding='utf-8').read()
    print('generated functions sha256', hashlib.sha256(generated_functions(text).encode()).hexdigest())
    for line in generated_functions(text).splitlines():
        if '_count(' in line:
            print(line.strip())

    executor = Executor().set_executed_class(class_file=out)
    for index, formula in enumerate(formulas):
        attempt('cell ' + formula, lambda i=index: executor.get_cell(Cell(0, 7, i)).value)

    # the same formulas after overriding cells (numbers to text, blanks to numbers, dates)
    executor.set_cells([
        Cell('Data', 'A', '1', value='one'), Cell('Data', 'A', '6', value=6), Cell('Data', 'B', '2', value=12),
        Cell('Data', 'E', '2', value=datetime.datetime(2001, 1, 1)), Cell('Other', 'A', '2', value=False),
        Cell('Data', 'D', '4', value=True), Cell('Data', 'A', '30', value=9),
    ])
    for index, formula in enumerate(formulas):
        attempt('overridden ' + formula, lambda i=index: executor.get_cell(Cell(0, 7, i)).value)

    # direct calls: class copy and template copy (an instance of the generated class)
    generated = Executor().set_executed_class(class_file=out).get_executed_class()
    direct = Direct()
    for name, instance in (('class', direct), ('template', generated)):
        empty = instance.EmptyCell()
        now = datetime.datetime(2024, 5, 6, 7, 8)
        matrices_variants = [
            [], [[]], [[[1, 2], [3, 4]]], [[[1, 'a'], [True, None]], [[2.5], [empty]]],
            [[[now, datetime.date(2024, 1, 1)]], [[float('nan'), float('inf'), -0.0]]],
            [[['5', '', 0]], [[False, 10 ** 30]]], [1, [2, [3, [4, ['5', now]]]]],
        ]
        args_variants = [
            [], [1], [True, False], ['7', '007', '-1', '1.5', '', ' 3', '٣', '²'],
            [1, 2.5, True, '8', 'x', None, now, datetime.date(2020, 1, 1), empty], [[1, 2], (3,)],
        ]
        cells_variants = [[], [1, 'a', True], [now, 3.5, '9', None, empty], [[1]]]
        for m, a, c in itertools.product(range(len(matrices_variants)), range(len(args_variants)),
                                         range(len(cells_variants))):
            attempt(f'{name} _count m{m} a{a} c{c}', instance._count, matrices_variants[m], args_variants[a],
                    cells_variants[c])
        # inputs the translator never produces: wrong container types, missing values
        odd = [
            ([[1]], [1], (2,)), ([[1]], (1, True, '3'), [2]), ([[1]], None, [2]), (None, [1], [2]), (5, [1], [2]),
            ([[1]], [1], None), ([[1]], 'ab1', [2]), ('ab', [], []), ([[1]], iter([1, True, '4']), [2]),
            (([1], [2]), [1], [now]), ([[1]], {1: 2, '5': 6}, [2]), ([[1]], [1], 'xy'),
        ]
        for index, (m, a, c) in enumerate(odd):
            attempt(f'{name} _count odd{index}', instance._count, m, a, c)
        attempt(f'{name} _count keywords', instance._count, matrices=[[1, 'a']], args=[True, '2'], args_cells=[now])
        attempt(f'{name} _count missing', instance._count, [[1]], [1])


main()
