"""Equivalence demo for r1: the _compare fallback ladder (C10).

Exercises both copies of the runtime helper (the AbstractExcelInPython class and the
class printed from the str.format template) on a grid of operand pairs and all six
operators, plus a translated workbook of comparison formulas.  Prints every result.
"""
import datetime
import hashlib
import os
import shutil
import sys
import tempfile
import warnings
from decimal import Decimal
from fractions import Fraction

warnings.simplefilter('ignore')

from openpyxl import Workbook

from excel2pycl import Parser, Executor, Cell
from excel2pycl.src.utilities.abstract_excel_in_python_class import AbstractExcelInPython


class Direct(AbstractExcelInPython):
    pass


class IntBoom:
    """int() raises something that is not ValueError/TypeError."""
    def __int__(self):
        raise KeyError('int-boom')

    def __repr__(self):
        return 'IntBoom()'


class StrBoom:
    def __str__(self):
        raise RuntimeError('str-boom')

    def __repr__(self):
        return 'StrBoom()'


class FloatOnly:
    """int() fails with TypeError, float() works."""
    def __init__(self, v):
        self.v = v

    def __float__(self):
        return float(self.v)

    def __repr__(self):
        return f'FloatOnly({self.v!r})'


OPERATORS = ['>=', '>', '<=', '<', '==', '!=', '=', '<>', '']


def operands(empty_cell_class):
    return [
        0, 1, -1, 2, 10, 9, 10 ** 400, -(10 ** 400),
        0.0, -0.0, 0.5, -0.5, 1.0, 1.5, 2.5, 1e308, 5e-324, float('inf'), float('-inf'), float('nan'),
        0.1 + 0.2, 0.3,
        True, False, None,
        '', ' ', 'a', 'A', 'abc', 'abd', 'ABC', 'b', '10', '9', '09', '1.5', '1,5', ' 3 ', '-2', '+2',
        'nan', 'inf', '1e400', '1_0', '2020-01-01', '2020-01-01 00:00:00', 'True',
        datetime.date(2020, 1, 1), datetime.date(2020, 1, 2), datetime.date(1899, 12, 30),
        datetime.datetime(2020, 1, 1), datetime.datetime(2020, 1, 1, 0, 0, 1),
        datetime.datetime(2020, 1, 1, 23, 59, 59, 999999), datetime.datetime(2019, 12, 31, 23, 59, 59),
        datetime.time(1, 2, 3), datetime.timedelta(days=1),
        empty_cell_class(),
        Decimal('1.5'), Decimal('NaN'), Decimal('Infinity'), Fraction(1, 3),
        [], [1], [1, 2], (1,), {}, b'10', 1 + 2j,
        IntBoom(), StrBoom(), FloatOnly(1.5), FloatOnly('x'),
    ]


def outcome(function, *args):
    try:
        return 'value ' + repr(function(*args))
    except BaseException as error:  # noqa
        return 'raised ' + error.__class__.__name__ + ': ' + str(error)


def grid(label, instance, lines):
    values = operands(instance.EmptyCell)
    for operator in OPERATORS:
        for left in values:
            # one line per (operator, left operand): a T/F/E letter per right operand and a hash of the full outcomes
            outcomes = [f'{right!r} -> {outcome(instance._compare, operator, left, right)}' for right in values]
            letters = ''.join('T' if o.endswith('value True') else 'F' if o.endswith('value False') else
                              'E' if ' -> raised ' in o else '?' for o in outcomes)
            digest = hashlib.sha256('\n'.join(outcomes).encode('utf-8')).hexdigest()[:20]
            lines.append(f'{label} {operator!r} {left!r} -> {letters} {digest}')
            if operator == '<' and isinstance(left, (datetime.date, str)):
                lines.extend(f'{label} full {operator!r} {left!r} {o}' for o in outcomes)
    # operands must not be modified / the call has no memory
    first = outcome(instance._compare, '<', datetime.date(2020, 1, 1), 'abc')
    second = outcome(instance._compare, '<', datetime.date(2020, 1, 1), 'abc')
    lines.append(f'{label} repeat {first} | {second}')
    # non-string operators
    for operator in (None, 5, ['<'], ('<',), b'<'):
        lines.append(f'{label} operator {operator!r} -> {outcome(instance._compare, operator, 1, 2)}')
        lines.append(f'{label} operator {operator!r} -> {outcome(instance._compare, operator, "a", "b")}')


def build_workbook(path):
    wb = Workbook()
    ws = wb.active
    ws.title = 'cmp'
    pairs = [
        (1, 2), (2, 1), (2, 2), (1.5, 1.25), (-0.5, 0.5), (0.1, 0.3), (1e15, 1e15 + 1), (3, 3.0), (-3, -3.5),
        ('a', 'b'), ('b', 'a'), ('abc', 'abc'), ('abc', 'ABC'), ('10', '9'), ('10', 9), (10, '9'), ('1.5', 1.5),
        ('', 0), (None, 0), (None, ''), (None, 1), (None, -1), (None, 'x'), (None, None), (0, None), ('x', None),
        (None, datetime.datetime(2024, 1, 1)), (datetime.datetime(2024, 1, 1), None),
        (datetime.date(2024, 1, 1), datetime.datetime(2024, 1, 1)),
        (datetime.date(2024, 1, 1), datetime.datetime(2024, 1, 1, 1, 10, 10)),
        (datetime.datetime(2024, 1, 2), datetime.date(2024, 1, 1)),
        (datetime.datetime(2024, 1, 1), 'abc'), (datetime.date(2024, 1, 1), 'abc'), (datetime.datetime(2024, 1, 1), 5),
        (True, 1), (False, 0), (True, 'TRUE'), (0.5, '0.5'), ('x', 5),
    ]
    excel_operators = ['<', '<=', '=', '<>', '>=', '>']
    for index, (left, right) in enumerate(pairs, start=1):
        ws.cell(row=index, column=1, value=left)
        ws.cell(row=index, column=2, value=right)
        for offset, operator in enumerate(excel_operators):
            ws.cell(row=index, column=3 + offset, value=f'=A{index}{operator}B{index}')
        ws.cell(row=index, column=9, value=f'=IF(A{index}<B{index},"lt",IF(A{index}=B{index},"eq","gt"))')
        ws.cell(row=index, column=10, value=f'=(A{index}<B{index})=(B{index}>A{index})')
    wb.save(path)
    return len(pairs)


def main():
    lines = []
    tmp = tempfile.mkdtemp(prefix='t24_r1_')
    try:
        xlsx = os.path.join(tmp, 'cmp.xlsx')
        out_py = os.path.join(tmp, 'cmp_translated.py')
        rows = build_workbook(xlsx)
        Parser().set_excel_file_path(xlsx).write_translation(out_py)
        executor = Executor().set_executed_class(class_file=out_py)

        for row in range(rows):
            for column in range(2, 10):
                lines.append(f'workbook {row} {column} -> '
                             f'{outcome(lambda: executor.get_cell(Cell(0, column, row)).value)}')
        # overriding cells changes the operands of the same formulas
        overrides = [(5, 'x'), ('', ''), (datetime.datetime(2020, 1, 1), datetime.date(2020, 1, 1)),
                     (2.5, '2.5'), ('b', 'B'), (0, False)]
        for left, right in overrides:
            executor.set_cells([Cell(0, 0, 0, value=left), Cell(0, 1, 0, value=right)])
            for column in range(2, 10):
                lines.append(f'override {left!r} {right!r} {column} -> '
                             f'{outcome(lambda: executor.get_cell(Cell(0, column, 0)).value)}')

        grid('class', Direct(), lines)
        grid('template', executor.get_executed_class(), lines)
    finally:
        shutil.rmtree(tmp, ignore_errors=True)

    for line in lines:
        print(line)
    print('lines', len(lines))
    print('sha256', hashlib.sha256('\n'.join(lines).encode('utf-8')).hexdigest())


if __name__ == '__main__':
    main()
    sys.exit(0)
