"""Equivalence demo for r4 (translators of VLOOKUP, INDEX and COLUMN: tuple assignments split into named
steps, optional arguments as if statements, guard clauses in the COLUMN translator).

Builds workbooks full of VLOOKUP / INDEX / COLUMN / MATCH / ADDRESS formulas (every grammar variant,
optional arguments present and absent, references to other sheets, nested calls), translates them as a
whole and from entry cells, prints the generated cell functions verbatim, the text digest and every
computed value or exception class.
"""
import hashlib
import os
import re
import shutil
import sys
import tempfile

from openpyxl import Workbook

from excel2pycl import Parser, Executor, Cell

TMP = tempfile.mkdtemp(prefix='t43r4_')
OUT = []


def emit(*parts):
    OUT.append(' '.join(str(p) for p in parts))


def digest(text):
    return hashlib.sha256(text.encode('utf-8')).hexdigest()[:16]


def show(value):
    return f'{type(value).__name__}:{value!r}'


def functions_of(text):
    return re.findall(r'^    def (_\w+)\(self\):\n        return (.*)$', text, flags=re.M)


KEYS = [2, 4, 4, 9, 15, 15, 30]
NAMES = ['ant', 'Bee', 'cat', 'Dog', 'eel', 'Fox', 'gnu']
PRICES = [1.5, 2.5, 3.5, 4.5, 5.5, 6.5, 7.5]


def table_workbook():
    wb = Workbook()
    ws = wb.active
    ws.title = 'Table'
    for key, name, price in zip(KEYS, NAMES, PRICES):
        ws.append([key, name, price, name.upper()])
    ws.append([None, None, None, None])
    ws.append([1, 2, 3, 4])
    other = wb.create_sheet('Other sheet')
    for key, name in zip(['a', 'b', 'c'], [10, 20, 30]):
        other.append([key, name])
    formulas = []
    for lookup in [0, 2, 3, 4, 9, 15, 16, 30, 31, 4.0, 9.5]:
        formulas += [
            f'=VLOOKUP({lookup};A1:D7;2;FALSE)', f'=VLOOKUP({lookup};A1:D7;2;TRUE)', f'=VLOOKUP({lookup};A1:D7;3)',
            f'=VLOOKUP({lookup};A1:D8;4;0)', f'=VLOOKUP({lookup};A1:D7;1+1;1)', f'=VLOOKUP({lookup}+0;$A$1:$D$7;A9+1;FALSE())',
            f'=INDEX(B1:B7;MATCH({lookup};A1:A7;0))', f'=INDEX(B1:B7;MATCH({lookup};A1:A7;1))',
            f'=INDEX(A1:D7;MATCH({lookup};A1:A7;1);3)', f'=IFERROR(VLOOKUP({lookup};A1:B7;5;FALSE);"oops")',
        ]
    for lookup in ['"a"', '"b"', '"c"', '"d"', '"B"']:
        formulas += [f"=VLOOKUP({lookup};'Other sheet'!A1:B3;2;FALSE)", f"=VLOOKUP({lookup};'Other sheet'!A1:B3;2)",
                     f"=INDEX('Other sheet'!B1:B3;MATCH({lookup};'Other sheet'!A1:A3;0))"]
    for row, column in [(1, 1), (2, 2), (7, 4), (8, 1), (9, 9), (0, 0), (3, 0), (0, 2), (1, 5), (7, 1)]:
        formulas += [f'=INDEX(A1:D7;{row};{column})', f'=INDEX(A1:D7;{row})', f'=INDEX(A1:A7;{row})', f'=INDEX(A1:D1;{row})',
                     f'=INDEX((A1:D1;A1:A7;A1:D7);{row};{column};3)', f'=INDEX((A1:D1;A1:A7);{row};{column};2)',
                     f'=INDEX((A1:B2;C1:D2);{row};{column};4)', f'=INDEX(A1:A3&B1:B3;{row})',
                     f"=INDEX('Other sheet'!A1:B3;{row};{column})", f'=INDEX(A1:D7;A9+{row};B9)']
    formulas += ['=COLUMN()', '=COLUMN(B3)', '=COLUMN(D1)+COLUMN(A1)', '=COLUMN(C3:C7)', '=COLUMN(AA1)', '=COLUMN(XFD1)',
                 "=COLUMN('Other sheet'!B2)", '=INDEX(A1:D7;1;COLUMN(B1))', '=VLOOKUP(4;A1:D7;COLUMN(C1);FALSE)',
                 '=COLUMN()*2', '=ADDRESS(1;COLUMN())', '=ADDRESS(COLUMN(B1);COLUMN(C1))', '=COLUMN(B1:B2)']
    for row, formula in enumerate(formulas):
        ws.cell(row=row + 12, column=7, value=formula)
    ws.cell(row=1, column=9, value='=COLUMN()')
    ws.cell(row=2, column=30, value='=COLUMN()+COLUMN(A1)')
    path = os.path.join(TMP, 'table.xlsx')
    wb.save(path)
    return path, formulas


def value_of(executor, cell):
    try:
        return show(executor.get_cell(cell).value)
    except Exception as e:  # noqa
        return f'EXC {type(e).__name__}: {e}'


def table_section():
    path, formulas = table_workbook()
    code_path = os.path.join(TMP, 'table.py')
    text = Parser().set_excel_file_path(path).write_translation(code_path).get_translation()
    emit('table', digest(text), len(formulas))
    for name, code in functions_of(text):
        emit('  def', name, code)
    executor = Executor().set_executed_class(class_file=code_path)
    for row, formula in enumerate(formulas):
        emit('formula', formula, '->', value_of(executor, Cell('Table', 'G', str(row + 12))))
    emit('I1', value_of(executor, Cell('Table', 'I', '1')), 'AD2', value_of(executor, Cell('Table', 'AD', '2')))
    executor.set_cells([Cell('Table', 'A', '9', value=2), Cell('Table', 'B', '9', value=3), Cell('Table', 'A', '1', value=4),
                        Cell('Other sheet', 'A', '2', value='B')])
    for row, formula in enumerate(formulas):
        emit('override', formula, '->', value_of(executor, Cell('Table', 'G', str(row + 12))))
    # entry-point translations of single formulas
    parser = Parser().set_excel_file_path(path)
    for row in range(0, len(formulas), 7):
        entry_path = os.path.join(TMP, f'entry_{row}.py')
        try:
            entry_text = parser.set_entrypoint_cell(Cell('Table', 'G', str(row + 12))).write_translation(entry_path).get_translation()
        except Exception as e:  # noqa
            emit('entry', formulas[row], 'EXC', type(e).__name__, e)
            continue
        emit('entry', formulas[row], digest(entry_text), [name for name, _ in functions_of(entry_text)], '->',
             value_of(Executor().set_executed_class(class_file=entry_path), Cell('Table', 'G', str(row + 12))))


def single_formula_section():
    """One formula per workbook: COLUMN over several columns rewrites the cell under translation."""
    cases = [
        ('C', '=COLUMN(C3:E3)'), ('A', '=COLUMN(A1:C1)'), ('F', '=COLUMN(B2:D4)'), ('B', '=COLUMN(B5:B9)'), ('D', '=COLUMN()'),
        ('E', '=COLUMN(Z10)'), ('A', '=COLUMN(A:A)'), ('B', '=COLUMN(A:C)'), ('E', '=COLUMN(A:A)'), ('E', '=COLUMN(A:B)'), ('E', '=COLUMN($B$1:$D$1)+1'), ('C', '=SUM(COLUMN(A1:B1))'), ('A', '=COLUMN(1)'),
        ('A', '=VLOOKUP(1;B1:C2)'), ('A', '=VLOOKUP(1;B1:C2;2;3;4)'), ('A', '=INDEX(B1:C2)'), ('A', '=INDEX(B1:C2;1;1;1;1)'),
        ('A', '=VLOOKUP(2;B1:C3;2;FALSE)'), ('A', '=INDEX(B1:C3;2;2)'), ('A', '=INDEX((B1:C3;B1:B3);2;1;2)'), ('A', '=INDEX(B1:C3;2)'),
        ('A', '=INDEX(B1:B3&C1:C3;2)'), ('A', '=VLOOKUP(B2;B1:C3;COLUMN(B1))'), ('E', '=INDEX(A1:C3;COLUMN(B1);COLUMN())'),
    ]
    for index, (column, formula) in enumerate(cases):
        wb = Workbook()
        ws = wb.active
        ws.title = 'S'
        for row, values in enumerate([[1, 'one'], [2, 'two'], [3, 'three']]):
            for offset, value in enumerate(values):
                ws.cell(row=row + 1, column=2 + offset, value=value)
        ws[f'{column}12'] = formula
        path = os.path.join(TMP, f'single_{index}.xlsx')
        wb.save(path)
        code_path = os.path.join(TMP, f'single_{index}.py')
        for entry in (None, Cell('S', column, '12')):
            parser = Parser().set_excel_file_path(path)
            if entry:
                parser.set_entrypoint_cell(entry)
            try:
                text = parser.write_translation(code_path).get_translation()
            except Exception as e:  # noqa
                emit('single', column, formula, 'entry' if entry else 'whole', 'EXC', type(e).__name__, e)
                continue
            emit('single', column, formula, 'entry' if entry else 'whole', digest(text))
            for name, code in functions_of(text):
                if name.startswith('_0_') and not re.fullmatch(r'_0_[12]_[012]', name):
                    emit('  def', name, code)
            executor = Executor().set_executed_class(class_file=code_path)
            emit('  values', [value_of(executor, Cell(0, c, 11)) for c in range(8)])


try:
    table_section()
    single_formula_section()
finally:
    shutil.rmtree(TMP, ignore_errors=True)

text = '\n'.join(OUT).replace(TMP, '<tmp>')
print(text)
print('DIGEST', digest(text), len(OUT))
sys.exit(0)
