"""Equivalence demo for r2: CellTranslator._set_cell_to_context (constant cell -> repr / EmptyCell, formula cell ->
lexer + ast + translators with the in-progress bookkeeping).

Part 1 drives CellTranslator.translate directly with a stub workbook holding values of many types and prints the
code that lands in the Context (plus what it evaluates to).
Part 2 uses real workbooks (hostile constant texts, sheet titles with quotes, numbers, dates, blanks, formulas over
them, circular references, broken formulas, entry-point mode, shared-context re-translation) through Parser/Executor
with the safety check on and off.
"""
import datetime
import hashlib
import os
import sys
import tempfile

from openpyxl import Workbook

from excel2pycl import Cell, Parser, Executor, Context, Excel, CellTranslator

OUT = []


def emit(*parts):
    line = ' | '.join(str(p) for p in parts)
    OUT.append(line)
    print(line)


def guarded(fn):
    try:
        return 'ok', fn()
    except BaseException as e:  # noqa
        return 'exc', type(e).__name__


tmp = tempfile.mkdtemp(prefix='r2demo')
os.chdir(tmp)
MARKER = 'PWNED'

HOSTILE = [
    'plain', "it's", '"quoted"', "'", '"', "'\"", '\\', '\\\\', "\\'", 'a\\', '\\n', 'line1\nline2', 'tab\there',
    "__import__('os').system('echo pwned')", f"__import__('pathlib').Path('{MARKER}').touch()",
    f"' + str(open('{MARKER}', 'w')) + '", "'); import os; ('", "''' + 1/0 + '''", '{0}', '{titles}', '{{}}',
    '{functions}', '%s', 'a=b', ' =1', 'x=', 'юникод ✓', 'self.EmptyCell()', 'None', 'True', '0', '1e5',
    '#DIV/0!', '#N/A', 'a' * 500, "'" * 41, '\\' * 41, 'eval("1")', 'lambda x: x', 'def f(): pass',
    'print(1)', 'SUM(1)', 'os.system("x")', ' ', '\t', 'é', ' ', '\x7f',
]


# ---------------------------------------------------------------- part 1: stub workbook, direct calls
class StubExcel:
    """Only what CellTranslator needs for constant cells; formulas go through the real lexer/translators."""

    def __init__(self, values):
        self.values = values
        self.filled = []

    def fill_cell(self, cell):
        from excel2pycl.src.handle_cell import handle_cell
        handle_cell(cell, {'S': 0})
        cell.value = self.values.get((cell.title, cell.column, cell.row))
        self.filled.append((cell.title, cell.column, cell.row))
        return cell


class Text(str):
    pass


VALUES = [None, '', '=', '=1', '=1+', '="a"', '="', '=A1', '=B7', '=TRUE', ' =1', 'x=1', '\n=1', 0, 1, -1, 2 ** 70, False, True,
          0.0, -0.0, 1.5, 1e300, 1e-300, float('inf'), float('-inf'), float('nan'),
          datetime.datetime(2020, 2, 29, 13, 14, 15), datetime.datetime(1899, 12, 30), datetime.date(2021, 1, 2),
          datetime.time(1, 2, 3), datetime.timedelta(days=1, seconds=5), b'bytes', b"it's", (1, 'a'), [1, "'"],
          {'k': "v'"}, Text('sub'), Text("=1"), 1 + 2j] + HOSTILE

values = {(0, 0, 0): 'a1 text', (0, 1, 6): 7}
for i, v in enumerate(VALUES):
    values[(0, 2, i)] = v
stub = StubExcel(values)
context = Context()
for i, v in enumerate(VALUES):
    cell = Cell(0, 2, i)
    status, res = guarded(lambda: CellTranslator.translate(cell, stub, context))
    code = context._cell_translations.get(f'_0_2_{i}')
    emit('stub', i, repr(v)[:80], status, res, 'code', repr(code)[:200], 'handled', cell.has_handled_identifiers())
    # translating the same address again must hit the cache and not refill a handled cell
    cell2 = Cell('S', 'C', str(i + 1))
    status, res = guarded(lambda: CellTranslator.translate(cell2, stub, context))
    emit('   again', status, res, 'value', repr(cell2.value)[:80], 'in progress', sorted(context._cells_in_progress))
    status, res = guarded(lambda: CellTranslator.translate(cell, stub, context))
    emit('   third', status, res)
emit('stub fills', len(stub.filled), hashlib.sha256(repr(stub.filled).encode()).hexdigest()[:16])
emit('stub translations', hashlib.sha256(repr(sorted(context._cell_translations.items())).encode()).hexdigest()[:16],
     'subs', hashlib.sha256(repr(sorted(context._sub_cell_translations.items())).encode()).hexdigest()[:16])
status, res = guarded(context.build_class)
emit('stub class', status, hashlib.sha256(res.encode('utf-8', 'backslashreplace')).hexdigest()[:16] if status == 'ok' else res)

# ---------------------------------------------------------------- part 2: real workbooks
counter = [0]


def build(sheets):
    counter[0] += 1
    xlsx = os.path.join(tmp, f'wb{counter[0]}.xlsx')
    wb = Workbook()
    first = True
    for title, rows in sheets:
        ws = wb.active if first else wb.create_sheet()
        first = False
        ws.title = title
        for r, row in enumerate(rows, start=1):
            for c, v in enumerate(row, start=1):
                if v is not None:
                    ws.cell(row=r, column=c, value=v)
    wb.save(xlsx)
    return xlsx


def run(label, sheets, safety=True, entry=None):
    xlsx = build(sheets)
    out_py = xlsx[:-5] + ('_s' if safety else '_n') + '.py'
    parser = Parser().set_excel_file_path(xlsx)
    if not safety:
        parser.disable_safety_check()
    if entry is not None:
        parser.set_entrypoint_cell(entry)
    tag = ('safety' if safety else 'nosafety') + ('' if entry is None else ' entry')
    status, res = guarded(lambda: parser.write_translation(out_py))
    if status == 'exc':
        emit('wb', label, tag, 'translate EXC', res)
        return
    text = open(out_py, encoding='utf-8').read()
    emit('wb', label, tag, 'module sha', hashlib.sha256(text.encode('utf-8', 'backslashreplace')).hexdigest()[:16],
         'defs', text.count('\n    def _'))
    status, res = guarded(lambda: Executor().set_executed_class(class_file=out_py))
    if status == 'exc':
        emit('   load EXC', res)
        return
    executor = res
    emit('   titles', executor._titles, 'sizes', executor._sheets_size)
    for s, (title, rows) in enumerate(sheets):
        width = max([len(r) for r in rows] + [0])
        for r in range(len(rows) + 1):
            for c in range(width + 1):
                status, res = guarded(lambda: executor.get_cell(Cell(s, c, r)).value)
                emit('   cell', s, r, c, status, type(res).__name__ if status == 'ok' else '', repr(res)[:160])


for i in range(0, len(HOSTILE), 4):
    chunk = [t for t in HOSTILE[i:i + 4]]
    rows = [[t, '=A%d' % (n + 1), '=A%d&"|"' % (n + 1), '=IF(A%d="x",1,LEFT(A%d,4))' % (n + 1, n + 1)]
            for n, t in enumerate(chunk)]
    for safety in (True, False):
        run(f'hostile{i}', [('S', rows)], safety)

run('types', [('S', [[1, 1.5, True, False, None, 'txt', datetime.datetime(2020, 1, 2, 3, 4, 5), datetime.date(2020, 1, 2),
                      datetime.time(4, 5, 6), 0, -3, 1e-7, 12345678901234567890],
                     ['=A1+B1', '=F1', '=E1', '=G1', '=YEAR(G1)', '=SUM(A1:D1)', '=E1&"x"', '=IF(E1="",1,2)', None, '=Z9']])])
for title in ["it's", 'a"b', "x' + __import__('os').getcwd() + '", '{0}', 'semi;colon', 'Лист 1', "q'''", 'new line']:
    for safety in (True, False):
        run('title ' + repr(title), [(title, [["v'1", '=A1', 5]]), ('Other', [["='%s'!A1" % title.replace("'", "''"), "='%s'!C1+1" % title]])],
            safety)
run('circular', [('S', [['=B1', '=A1']])])
run('self', [('S', [['=A1']])])
run('circular3', [('S', [['=B1+1', '=C1+1', '=A1+1', 7]])])
run('circular range', [('S', [['=SUM(A1:A3)'], [1], [2]])])
run('broken', [('S', [['ok', '=1+', 3]])])
run('broken2', [('S', [['=FOO(1)', 3]])], safety=False)
run('only eq', [('S', [['==', 5]])])
run('only eq2', [('S', [['=', 5]])])
# entry point mode: only the dependencies of the entry cell are translated
deps = [('S', [['=B1+C1', '=C1*2', 4, 'unused', '=1+', "it's"], ['=F1', '=A1', None, '=E1']])]
for entry in [Cell(0, 0, 0), Cell('S', 'A', '1'), Cell('S', 'B', '2'), Cell(0, 0, 1), Cell(0, 3, 1), Cell(0, 4, 0),
              Cell(0, 9, 9), Cell(0, 3, 0), Cell('Nope', 'A', '1'), Cell('S', 'A')]:
    run('entry ' + repr(entry), deps, True, entry)

# shared context: a formula that fails half way stays "in progress" (old and new code alike)
xlsx = build([('S', [['=B1+', '=C1', 5, '=A1', '=B1', "o'k"]])])
excel = Excel.parse(xlsx)
context = Context()
for col in [2, 1, 4, 0, 0, 3, 3, 1, 5, 5]:
    cell = Cell(0, col, 0)
    status, res = guarded(lambda: CellTranslator.translate(cell, excel, context))
    emit('shared', col, status, res, 'value', repr(cell.value), 'in progress', sorted(context._cells_in_progress),
         'done', sorted(context._cell_translations.items()))
status, res = guarded(lambda: CellTranslator.translate_file(excel, context))
emit('shared file', status, res, sorted(context._cells_in_progress), sorted(context._cell_translations.items()))

emit('marker file created', os.path.exists(MARKER))
emit('DIGEST', hashlib.sha256('\n'.join(OUT).encode('utf-8', 'backslashreplace')).hexdigest())
sys.exit(0)
