"""Equivalence demo for r4: the SEARCH runtime helper (C17).

Calls _search of both copies of the runtime class (the AbstractExcelInPython class and the
class printed from the template) on a grid of needles (plain, wildcards ? * ~, regex
metacharacters), haystacks and start positions, then evaluates a translated workbook of
SEARCH formulas (also after overriding the operands).  Prints every result with its type.
"""
import hashlib
import os
import shutil
import sys
import tempfile
import warnings

warnings.simplefilter('ignore')

from openpyxl import Workbook

from excel2pycl import Parser, Executor, Cell
from excel2pycl.src.utilities.abstract_excel_in_python_class import AbstractExcelInPython


class Direct(AbstractExcelInPython):
    pass


def outcome(function, *args):
    try:
        value = function(*args)
        return f'value {type(value).__name__} {value!r}'
    except BaseException as error:  # noqa
        return 'raised ' + error.__class__.__name__ + ': ' + str(error)


NEEDLES = [
    '', 'a', 'A', 'b', 'ab', 'ba', 'abc', 'z', 'имб', 'Ь', ' ', 'aa', 'aaa',
    '?', '??', '???', '*', '**', '?*', '*?', 'a?', '?a', 'a*', '*a', 'a?c', 'a*c', 'A?C', 'a??', 'a*b*c', '*b*', 'b?*',
    '~', '~~', '~?', '~*', 'a~?', 'a~*', '~?a', '~*a', 'a~?c', 'a~*c', '~a', 'a~', '~~?', '~~*', '~?*', '~*?', '~??',
    '~**', '?~?', '*~*', '?~*', '*~?', 'wh~?', 'wh?~?', 'is*~?', '3~*4', '3*~*4', '~*?=', '?~*4',
    '.', 'a.c', 'a.?', '.*', '.?', '\\d', '\\d+', '\\d?', 'a\\dc', '\\', 'a\\', '\\?', '\\*', '[', '[a-c]', '[a-c]?', '(',
    ')', '(a)', '(a)?', '(a)*', '(?i)a', 'a|b', 'a|b?', '^a', '^?', '$', 'c$', '?$', '+', 'a+', 'a+?', '{', 'a{2}', 'a{2}?',
    '(.)', '(.*)', '(.)?', '(.)*', 'a(.)c', 'a(.*)c', '?(.)', '(b)|(c)?', '(x)|?', '(?:z)?b?', '(?P<n>a)?',
    'и*ь', 'МБ?РЬ', '?ткрыт*р', 'п?чему же~?', 'П*очему', 'П?че\\dу', '* ?мбирь', 'ß?', 'İ?', 'ı*',
]

HAYSTACKS = [
    '', 'a', 'abc', 'ABC', 'aabcabc', 'abcabc', 'a.c', 'a?c', 'a*c', 'what? why?', 'is it* ok?', '3*4=12', '3x*4',
    'a\\dc a5c', 'имбирь', 'ИМБИРЬ', 'эти открытые двери', 'Почему, почему же?', 'поче5у', 'консервированный имбирь',
    'x(a)b[a-c]', 'aa', 'a b', 'line\nbreak a', 'straße İı', '~tilde~?', '(.)(.*)',
]


def start_values(empty):
    return [None, 0, 1, 2, 3, 4, 7, 100, -1, True, False, empty(), 1.0, 2.0, 2.5, 0.5, float('nan'), float('inf'), '1', [2]]


def grid(label, instance, lines):
    starts = start_values(instance.EmptyCell)
    for needle in NEEDLES:
        for haystack in HAYSTACKS:
            results = [f'{start!r} -> {outcome(instance._search, needle, haystack, start)}' for start in starts]
            compact = ' '.join(r.split(' -> ', 1)[1].replace('value ', '').replace('raised ', '!').split(':')[0]
                               for r in results)
            digest = hashlib.sha256('\n'.join(results).encode('utf-8')).hexdigest()[:16]
            lines.append(f'{label} {needle!r} in {haystack!r} -> {compact} | {digest}')
    for needle, haystack in [(None, 'abc'), ('a', None), (1, 'abc'), ('a', 123), (instance.EmptyCell(), 'abc'),
                             ('a', instance.EmptyCell()), ('1', 123), (b'a', b'abc'), (b'?', b'abc'), ('a', ['a', 'b']),
                             ('?', ['a', 'b']), (['a'], 'abc')]:
        for start in [None, 1, 2, 0]:
            lines.append(f'{label} odd {needle!r} in {haystack!r} from {start!r} -> '
                         f'{outcome(instance._search, needle, haystack, start)}')
    lines.append(f'{label} kw -> {outcome(lambda: instance._search(find_text="b?", within_text="abc", start_num=None))}')
    lines.append(f'{label} arity -> {outcome(lambda: instance._search("b", "abc"))}')
    # calls have no memory: same answer when repeated and interleaved
    first = [outcome(instance._search, needle, 'aabcabc', 2) for needle in ('a?c', 'b', 'a?c', '~?', 'a?c')]
    lines.append(f'{label} repeat -> {first}')


ROWS = [
    ('р', 'имбирь', None), ('и', 'имбирь', 2), ('и*ь', 'ИМБИРЬ', None), ('МБ?РЬ', 'имбирь', None),
    ('Река', 'Имбирь', None), ('м', 'имбирь', 3), ('\\d+', '12356', None), ('?ткрыт*р', 'эти открытые двери', None),
    ('п?чему же~?', 'Почему, почему же?', None), ('П*очему', 'Почему, почему же?', None), ('П?очему', 'почему', None),
    ('П?че\\dу', 'поче5у', None), ('?мбирь', 'имбирь', None), ('* ?мбирь', 'консервированный имбирь', None),
    ('b', 'abcabc', 3), ('B', 'abcabc', 2), ('b', 'abcabc', 6), ('b', 'abcabc', 7), ('b', 'abcabc', 0), ('b', 'abcabc', -1),
    ('b?', 'abcabc', 3), ('b*', 'abcabc', 5), ('?', 'abc', 3), ('?', 'abc', 4), ('~?', 'a?c', None), ('~*', 'a*c', 2),
    ('~*', 'a*c', 3), ('~~', 'a~c', None), ('', 'abc', None), ('', 'abc', 3), ('a', '', None), ('*', '', None),
    ('a.c', 'abc a.c', None), ('a.?', 'abc a.c', None), ('(', 'f (x)', None), ('(?', 'f (x)', None), ('[?', 'f [x]', None),
]


def build_workbook(path):
    wb = Workbook()
    ws = wb.active
    ws.title = 'search'
    for index, (needle, haystack, start) in enumerate(ROWS, start=1):
        ws.cell(row=index, column=1, value=needle)
        ws.cell(row=index, column=2, value=haystack)
        if start is None:
            ws.cell(row=index, column=3, value=f'=SEARCH(A{index},B{index})')
        else:
            ws.cell(row=index, column=3, value=f'=SEARCH(A{index},B{index},{start})')
        ws.cell(row=index, column=4, value=f'=IFERROR(SEARCH(A{index},B{index})+0,"none")')
        ws.cell(row=index, column=5, value=f'=MID(B{index},SEARCH(A{index},B{index}),2)')
    wb.save(path)


def main():
    lines = []
    tmp = tempfile.mkdtemp(prefix='t24_r4_')
    try:
        xlsx = os.path.join(tmp, 'search.xlsx')
        out_py = os.path.join(tmp, 'search_translated.py')
        build_workbook(xlsx)
        Parser().set_excel_file_path(xlsx).write_translation(out_py)
        executor = Executor().set_executed_class(class_file=out_py)

        for row, (needle, haystack, start) in enumerate(ROWS):
            for column in (2, 3, 4):
                lines.append(f'workbook {needle!r} {haystack!r} {start!r} col{column} -> '
                             f'{outcome(lambda: executor.get_cell(Cell(0, column, row)).value)}')
        for needle, haystack in [('c', 'abcabc'), ('C?', 'abcabc'), ('*', 'abc'), ('x', 'abc'), ('', ''), ('~', 'a~b')]:
            executor.set_cells([Cell(0, 0, 14, value=needle), Cell(0, 1, 14, value=haystack)])
            for column in (2, 3, 4):
                lines.append(f'override {needle!r} {haystack!r} col{column} -> '
                             f'{outcome(lambda: executor.get_cell(Cell(0, column, 14)).value)}')

        grid('class', Direct(), lines)
        grid('template', executor.get_executed_class(), lines)
    finally:
        shutil.rmtree(tmp, ignore_errors=True)

    for line in lines:
        print(line)
    print('lines', len(lines))
    print('sha256', hashlib.sha256('\n'.join(lines).encode('utf-8')).hexdigest())


if __name__ == '__main__':
    main()
    sys.exit(0)
