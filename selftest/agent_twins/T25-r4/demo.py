"""Equivalence demo for r4: runtime helper _date (both copies). Calls the helper on the importable base class and
on a generated class for a grid of year / month / day arguments (numbers, numeric and non numeric text, floats,
booleans, None, empty cells, out-of-range values) and evaluates DATE formulas through the Executor.
"""
import datetime
import hashlib
import itertools
import os
import shutil
import tempfile

from openpyxl import Workbook

from excel2pycl import Parser, Executor, Cell
from excel2pycl.src.object_loader import load_module
from excel2pycl.src.utilities.abstract_excel_in_python_class import AbstractExcelInPython


class Hand(AbstractExcelInPython):
    pass


class TextWhoseIntRaises(str):
    """a text value whose conversion fails with something that is not a ValueError"""
    def __int__(self):
        raise KeyboardInterrupt()


class Loud:
    """records the order in which the arguments are touched"""
    log = []

    def __init__(self, name, value):
        self.name, self.value = name, value

    def __sub__(self, other):
        Loud.log.append(f'{self.name}-{other}')
        return self.value - other

    def __index__(self):
        Loud.log.append(f'{self.name}.index')
        return self.value

    def __le__(self, other):
        Loud.log.append(f'{self.name}<={other}')
        return self.value <= other

    def __ge__(self, other):
        Loud.log.append(f'{self.name}>={other}')
        return self.value >= other

    def __lt__(self, other):
        Loud.log.append(f'{self.name}<{other}')
        return self.value < other

    def __gt__(self, other):
        Loud.log.append(f'{self.name}>{other}')
        return self.value > other

    def __iadd__(self, other):
        Loud.log.append(f'{self.name}+={other}')
        return self.value + other

    def __add__(self, other):
        Loud.log.append(f'{self.name}+{other}')
        return self.value + other


def show(value):
    return f'{type(value).__name__}:{value!r}'


def call(function, *args):
    try:
        return show(function(*args))
    except BaseException as e:  # noqa
        return 'RAISED ' + e.__class__.__name__


def helper_cases(instance):
    empty = instance.EmptyCell()
    years = [2024, 2023, 1900, 1899, 1, 0, -1, 9999, 10000, 8100, 8099, 99, 1899.0, 2024.0, 2024.5, '2024', '24', ' 2024 ',
             '2024.0', 'year', '', '-5', '10000', True, False, None, empty, float('nan'), float('inf'), [2024],
             TextWhoseIntRaises('2020'), 10 ** 30, '１９９９']
    months = [1, 2, 12, 13, 0, -1, -24, 25, 1.0, 1.5, '3', '03', 'x', '', None, True, empty, 120000, -120000, float('nan'),
              TextWhoseIntRaises('2')]
    days = [1, 28, 29, 30, 31, 32, 0, -1, 366, -400, 1.0, 2.5, '15', ' 7', 'd', '', None, False, empty, 4000000, -4000000,
            float('inf'), TextWhoseIntRaises('9')]
    lines = []
    for year, month, day in itertools.product(years, months, days):
        lines.append(f'date {show(year)} {show(month)} {show(day)} -> {call(instance._date, year, month, day)}')
    # missing / extra arguments
    lines.append('date two args -> ' + call(instance._date, 2024, 1))
    lines.append('date four args -> ' + call(instance._date, 2024, 1, 1, 1))
    # order in which the arguments are used
    for y, m, d in [(2024, 2, 3), (5, 2, 3), (-2, 2, 3), (20000, 2, 3), (2024, 50000, 3)]:
        Loud.log = []
        result = call(instance._date, Loud('y', y), Loud('m', m), Loud('d', d))
        lines.append(f'date loud {y} {m} {d} -> {result} log {Loud.log}')
    for y, m, d in [(2024, 'bad', Loud('d', 1)), ('bad', Loud('m', 1), Loud('d', 1)), (Loud('y', 1), 2, 'bad')]:
        Loud.log = []
        result = call(instance._date, y, m, d)
        lines.append(f'date loud text -> {result} log {Loud.log}')
    return lines


ROWS = [
    [2024, 2, 29, '=DATE(A1,B1,C1)'],
    [2023, 2, 29, '=DATE(A2,B2,C2)'],
    [24, 12, 31, '=DATE(A3,B3,C3)'],
    [1899, 13, 1, '=DATE(A4,B4,C4)'],
    [-1, 1, 1, '=DATE(A5,B5,C5)'],
    [10000, 1, 1, '=DATE(A6,B6,C6)'],
    ['2024', '5', '17', '=DATE(A7,B7,C7)'],
    ['x', 5, 17, '=DATE(A8,B8,C8)'],
    [2024, 'x', 17, '=DATE(A9,B9,C9)'],
    [2024, 5, 'x', '=DATE(A10,B10,C10)'],
    [None, 5, 17, '=DATE(A11,B11,C11)'],
    [2024, None, None, '=DATE(A12,B12,C12)'],
    [2024, 0, 0, '=DATE(A13,B13,C13)'],
    [2024, -11, -30, '=DATE(A14,B14,C14)'],
    [2024, 5, 17, '=DATE(A15+1,B15*2,C15-20)'],
    [2024, 5, 17, '=DATE(2024,5,17)'],
    [2024, 5, 17, '=YEAR(DATE(A17,B17+12,C17))&"-"&MONTH(DATE(A17,B17+12,C17))&"-"&DAY(DATE(A17,B17,C17+20))'],
    [2024, 5, 17, '=IFERROR(DATE(A18,B18,"oops"),"fallback")'],
    [2024, 5, 17, '=IF(DATE(A19,B19,C19)>DATE(2024,1,1),"later","earlier")'],
    [2024, 5, 17, '=DATEDIF(DATE(A20,1,1),DATE(A20,B20,C20),"D")'],
    [2024.5, 5, 17, '=IFERROR(DATE(A21,B21,C21),"float year")'],
    [2024, 5.5, 17, '=IFERROR(DATE(A22,B22,C22),"float month")'],
    [9999, 12, 32, '=IFERROR(DATE(A23,B23,C23),"overflow")'],
]

OVERRIDES = [
    [],
    [Cell(0, 0, r, value='1999') for r in range(23)],
    [Cell(0, 1, r, value='12') for r in range(23)] + [Cell(0, 2, r, value=' 31 ') for r in range(23)],
    [Cell(0, 0, r, value=1899) for r in range(23)] + [Cell(0, 1, r, value=True) for r in range(23)],
    [Cell(0, 2, r, value='') for r in range(23)],
    [Cell(0, 0, r, value=0) for r in range(23)] + [Cell(0, 1, r, value=0) for r in range(23)],
    [Cell(0, 0, r, value='12e3') for r in range(23)],
]


def main():
    out = []
    tmp = tempfile.mkdtemp(prefix='r4demo')
    try:
        xlsx = os.path.join(tmp, 'book.xlsx')
        wb = Workbook()
        ws = wb.active
        for row in ROWS:
            ws.append(row)
        wb.save(xlsx)
        py_file = os.path.join(tmp, 'book_translation.py')
        Parser().set_excel_file_path(xlsx).write_translation(py_file)

        hand_lines = helper_cases(Hand())
        generated_lines = helper_cases(load_module(py_file).ExcelInPython())
        out.append(f'base class and generated class agree: {hand_lines == generated_lines}')
        out.append('BASE sha256 ' + hashlib.sha256('\n'.join(hand_lines).encode()).hexdigest())
        out.append('GENERATED sha256 ' + hashlib.sha256('\n'.join(generated_lines).encode()).hexdigest())
        out += ['base ' + line for line in hand_lines]
        out += ['generated ' + line for line in generated_lines]

        for number, override in enumerate(OVERRIDES):
            executor = Executor().set_executed_class(class_file=py_file)
            if override:
                executor.set_cells(override)
            for row in range(len(ROWS)):
                try:
                    result = show(executor.get_cell(Cell(0, 3, row)).value)
                except BaseException as e:  # noqa
                    result = 'RAISED ' + e.__class__.__name__
                out.append(f'override {number} D{row + 1} -> {result}')
    finally:
        shutil.rmtree(tmp, ignore_errors=True)

    body = '\n'.join(out)
    # the grid is large: print every 37th helper line, everything else in full, and the digest of all lines
    for number, line in enumerate(out):
        if not line.startswith(('base date', 'generated date')) or ' loud ' in line or number % 37 == 0:
            print(line)
    print('LINES', len(out), 'DIGEST', hashlib.sha256(body.encode()).hexdigest())


if __name__ == '__main__':
    main()
