"""Equivalence demo for r3: Executor.set_cells / _set_cells_to_executed_instance (the override store).

Builds a three-sheet workbook, translates it once and replays many histories of set_cells calls on
fresh executors: overrides of constants, of formula cells (also failing ones), of blank cells and of
cells beyond the used range, duplicates inside one call, repeated calls, string and integer
identifiers, rejected cells (unknown sheet, bad index, missing row, wrong types), one-shot iterators,
and state after a rejected call. After every step the values of all probe cells, the sheet sizes,
the executor's stored cells and the instance's override table are recorded.  Every history is also
compared with a fresh translation of the edited workbook (the property itself).
"""
import hashlib
import itertools
import math
import os
import random
import shutil
import sys
import tempfile

import openpyxl

from excel2pycl import Parser, Executor, Cell

DATA = {
    'Main': {'A1': 10, 'B1': 2.5, 'C1': '=A1*B1', 'D1': '=C1+Other!A1', 'A2': 'text', 'B2': '=A2&"!"',
             'C2': '=1/0', 'D2': '=IFERROR(C2,-1)', 'A3': '=SUM(A1:B1)', 'B3': '=SUM(A1:D1)', 'C3': '=D1>30',
             'D3': '=IF(E5=0,"blank","filled")', 'A4': '=ROUND(C1/3,2)', 'B4': '=F9+1', 'C4': '=Third!B2%'},
    'Other': {'A1': 7, 'B1': '=A1+Main!A1', 'A2': '=B1*2', 'C3': True},
    'Third': {'B2': 50, 'A1': '=B2+Main!C1+Other!B1'},
}
PROBES = [('Main', c, r) for r in '12345' for c in 'ABCDEF'] + [('Main', 'F', '9'), ('Main', 'H', '12')] + \
         [('Other', c, r) for r in '123' for c in 'ABC'] + [('Other', 'E', '7')] + \
         [('Third', c, r) for r in '12' for c in 'AB'] + [('Third', 'D', '4')]


def show(value):
    if isinstance(value, float):
        return f'float:{value!r}:{value.hex() if math.isfinite(value) else "-"}'
    if isinstance(value, list):
        return 'list:[' + ', '.join(show(item) for item in value) + ']'
    return f'{type(value).__name__}:{value!r}'


def build(path, edits=None):
    workbook = openpyxl.Workbook()
    workbook.remove(workbook.active)
    for title, cells in DATA.items():
        sheet = workbook.create_sheet(title)
        for address, value in cells.items():
            sheet[address] = value
    for (title, column, row), value in (edits or {}).items():
        workbook[title][f'{column}{row}'] = value
    workbook.save(path)


def values_of(executor):
    result = []
    for title, column, row in PROBES:
        try:
            result.append(show(executor.get_cell(Cell(title, column, row)).value))
        except BaseException as error:  # noqa
            result.append(f'raised:{type(error).__name__}')
    return result


def state_of(executor):
    instance = executor.get_executed_class()
    stored = [(uid, cell.title, cell.column, cell.row, show(cell.value), cell.has_handled_identifiers())
              for uid, cell in executor._cells.items()]
    arguments = [(uid, show(value)) for uid, value in instance._arguments.items()]
    return (f'sizes={executor._sheets_size!r} instance_sizes={instance.get_sheets_size()!r} '
            f'changed={executor._cells_have_been_changed} stored={stored!r} arguments={arguments!r}')


def sheet_dump(executor, sheet):
    try:
        return [[show(cell.value) for cell in row] for row in executor.get_sheet(sheet)]
    except BaseException as error:  # noqa
        return f'raised:{type(error).__name__}'


HISTORIES = {
    'constants': [[('Main', 'A', '1', 3)], [('Main', 'B', '1', 4)], [('Main', 'A', '1', 5), ('Other', 'A', '1', 1)]],
    'formula cells': [[('Main', 'C', '1', 100)], [('Main', 'C', '2', 8)], [('Main', 'C', '1', 'str')],
                      [('Other', 'B', '1', 0.5), ('Third', 'A', '1', None)]],
    'blank and beyond': [[('Main', 'E', '5', 1)], [('Main', 'F', '9', 41)], [('Main', 'H', '12', 'far')],
                         [('Other', 'E', '7', 2.5)], [('Third', 'D', '4', False)], [('Main', 'E', '5', 0)],
                         [('Main', 'E', '5', '')], [('Main', 'E', '5', None)]],
    'duplicates in one call': [[('Main', 'A', '1', 1), ('Main', 'A', '1', 2), ('Main', 'B', '1', 9),
                                ('Main', 'A', '1', 3)],
                               [('Main', 'B', '1', 1), ('Main', 'A', '1', 4), ('Main', 'B', '1', 2)]],
    'repeated calls': [[('Main', 'A', '1', n)] for n in (1, 2, 3, 2, 1)] + [[('Main', 'A', '1', 10)]],
    'empty call': [[], [('Main', 'A', '1', 0)], []],
    'types': [[('Main', 'A', '1', True)], [('Main', 'A', '1', '12')], [('Main', 'B', '1', None)],
              [('Main', 'A', '2', 5)], [('Third', 'B', '2', 12.5)], [('Main', 'A', '1', 1e308), ('Main', 'B', '1', 10)],
              [('Main', 'A', '1', float('nan'))], [('Main', 'A', '1', [1, 2])]],
}


def run_histories(out_py, tmp, lines):
    for name, history in HISTORIES.items():
        executor = Executor().set_executed_class(class_file=out_py)
        lines.append(f'[{name}] start {values_of(executor)} {state_of(executor)}')
        edits = {}
        for step, call in enumerate(history):
            # alternate between string identifiers and 0-based integer identifiers
            cells = []
            for position, (title, column, row, value) in enumerate(call):
                if (step + position) % 2:
                    cells.append(Cell(list(DATA).index(title), openpyxl.utils.column_index_from_string(column) - 1,
                                      int(row) - 1, value=value))
                else:
                    cells.append(Cell(title, column, row, value=value))
                edits[(title, column, row)] = value
            returned = executor.set_cells(cells)
            lines.append(f'[{name}] step {step} returned_self={returned is executor} before_get {state_of(executor)}')
            lines.append(f'[{name}] step {step} values {values_of(executor)}')
            lines.append(f'[{name}] step {step} after_get {state_of(executor)}')
        for sheet in ('Main', 1, 'Third'):
            lines.append(f'[{name}] sheet {sheet!r} {sheet_dump(executor, sheet)}')
        # the property itself: same as a fresh translation of the edited workbook (where that is expressible)
        if all(value is None or isinstance(value, (int, float, str, bool)) and value == value and value != ''
               for value in edits.values()):
            xlsx = os.path.join(tmp, 'edited.xlsx')
            edited_py = os.path.join(tmp, f'edited_{len(lines)}_generated.py')
            build(xlsx, edits)
            Parser().set_excel_file_path(xlsx).write_translation(edited_py)
            fresh = Executor().set_executed_class(class_file=edited_py)
            same = [a == b for a, b in zip(values_of(executor), values_of(fresh))]
            lines.append(f'[{name}] equals fresh translation: {same}')


def run_rejections(out_py, lines):
    bad_calls = {
        'unknown sheet': lambda: [Cell('Main', 'A', '1', value=1), Cell('Nope', 'A', '1', value=2),
                                  Cell('Main', 'B', '1', value=3)],
        'sheet index too large': lambda: [Cell('Main', 'J', '20', value=1), Cell(7, 0, 0, value=2)],
        'negative sheet index': lambda: [Cell(-1, 0, 0, value=5), Cell(-4, 0, 0, value=5)],
        'row missing': lambda: [Cell('Other', 'G', '9', value=1), Cell(0, 1, value=2)],
        'row missing, sheet too large': lambda: [Cell(9, 1, value=2)],
        'row empty string': lambda: [Cell('Main', 'A', '', value=2)],
        'column missing': lambda: [Cell(0, None, 1, value=2)],
        'bad column letters': lambda: [Cell('Main', '1', '1', value=2)],
        'bad row text': lambda: [Cell('Main', 'A', 'x', value=2)],
        'float indexes': lambda: [Cell(0, 1.0, 2.0, value=2)],
        'float sheet': lambda: [Cell(0.0, 1, 2, value=2)],
        'not a cell': lambda: [Cell('Main', 'A', '1', value=1), 'A1'],
        'none': lambda: None,
        'single cell not in list': lambda: Cell('Main', 'A', '1', value=1),
        'generator': lambda: (Cell('Main', c, '1', value=n) for n, c in enumerate('AB')),
        'tuple': lambda: (Cell('Main', 'A', '1', value=77), Cell('Main', 'K', '30', value=78)),
        'already handled cell reused': None,
    }
    for name, factory in bad_calls.items():
        executor = Executor().set_executed_class(class_file=out_py)
        executor.set_cells([Cell('Main', 'B', '1', value=4)])
        if factory is None:
            reused = Cell('Main', 'A', '1', value=1)
            executor.set_cells([reused])
            reused.value = 2
            cells = [reused, Cell(0, 0, 0, value=3), reused]
        else:
            cells = factory()
        try:
            outcome = f'returned_self={executor.set_cells(cells) is executor}'
        except BaseException as error:  # noqa
            outcome = f'raised:{type(error).__name__}'
        lines.append(f'[reject:{name}] {outcome} {state_of(executor)}')
        lines.append(f'[reject:{name}] values {values_of(executor)}')
        lines.append(f'[reject:{name}] after_get {state_of(executor)}')
        executor.set_cells([Cell('Main', 'A', '1', value=6)])
        lines.append(f'[reject:{name}] next call values {values_of(executor)} {state_of(executor)}')
        lines.append(f'[reject:{name}] sheet {sheet_dump(executor, 0)}')


def run_random(out_py, lines):
    rnd = random.Random(44)
    titles = list(DATA)
    for history in range(30):
        executor = Executor().set_executed_class(class_file=out_py)
        for step in range(rnd.randint(1, 8)):
            cells = []
            for _ in range(rnd.randint(0, 5)):
                value = rnd.choice([rnd.randint(-50, 50), round(rnd.uniform(-10, 10), 3), 'v', None, True, 0, ''])
                if rnd.random() < 0.5:
                    cells.append(Cell(rnd.choice(titles), rnd.choice('ABCDEFGH'), str(rnd.randint(1, 11)), value=value))
                else:
                    cells.append(Cell(rnd.randrange(3), rnd.randrange(8), rnd.randrange(11), value=value))
            executor.set_cells(cells)
            if rnd.random() < 0.6:
                lines.append(f'[random {history}.{step}] values {values_of(executor)}')
            lines.append(f'[random {history}.{step}] {state_of(executor)}')
        lines.append(f'[random {history}] final {values_of(executor)} {sheet_dump(executor, rnd.randrange(3))}')


def run_two_executors(out_py, lines):
    # two executors of the same class file do not share overrides
    first = Executor().set_executed_class(class_file=out_py)
    second = Executor().set_executed_class(class_file=out_py)
    first.set_cells([Cell('Main', 'A', '1', value=1)])
    second.set_cells([Cell('Main', 'A', '1', value=2), Cell('Main', 'G', '7', value=2)])
    lines.append(f'[two] first {values_of(first)} {state_of(first)}')
    lines.append(f'[two] second {values_of(second)} {state_of(second)}')
    # an executor given a class object
    from excel2pycl import load_module
    third = Executor().set_executed_class(class_object=load_module(out_py).ExcelInPython)
    third.set_cells(list(itertools.chain([Cell('Other', 'A', '1', value=70)], [Cell(1, 0, 0, value=71)])))
    lines.append(f'[two] third {values_of(third)} {state_of(third)}')


def main():
    lines = []
    tmp = tempfile.mkdtemp(prefix='t44_r3_')
    try:
        xlsx = os.path.join(tmp, 'book.xlsx')
        out_py = os.path.join(tmp, 'book_generated.py')
        build(xlsx)
        text = Parser().set_excel_file_path(xlsx).write_translation(out_py).get_translation()
        lines.append(f'class text sha256:{hashlib.sha256(text.encode("utf-8")).hexdigest()}')
        run_histories(out_py, tmp, lines)
        run_rejections(out_py, lines)
        run_random(out_py, lines)
        run_two_executors(out_py, lines)
    finally:
        shutil.rmtree(tmp, ignore_errors=True)

    print(f'results: {len(lines)}')
    print(f'sha256: {hashlib.sha256(chr(10).join(lines).encode("utf-8")).hexdigest()}')
    for line in lines:
        print(line)
    return 0


if __name__ == '__main__':
    sys.exit(main())
