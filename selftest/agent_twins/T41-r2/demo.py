"""Equivalence demonstration: prints a deterministic digest; run on the unchanged and the refactored tree."""
import warnings
warnings.simplefilter("ignore")
import datetime
import hashlib
import os
import shutil
import sys
import tempfile

import openpyxl

from excel2pycl import Parser, Executor, Cell

DATA = {
    'A1': 7, 'A2': 2.5, 'A3': 'abc', 'A4': '12', 'A5': None, 'A6': True, 'A7': False,
    'A8': 0, 'A9': -3, 'A10': '#N/A', 'A11': '#DIV/0!', 'A12': datetime.datetime(2024, 2, 29),
    'A13': '', 'A14': 0.1, 'A15': 1e-7, 'A16': 'ABC', 'A17': '2024-02-29', 'A18': 1234567890123,
}


def functions_part(text):
    marker = "        return '#VALUE!'\n\n"
    return text[text.rindex(marker) + len(marker):]


def show(value):
    return f'{type(value).__name__}:{value!r}'


def run(formulas, overrides=(), tag=''):
    """formulas: list of formula strings placed in D1.. ; overrides: list of lists of (col,row,value)"""
    tmp = tempfile.mkdtemp(prefix='e2p_demo_')
    try:
        wb = openpyxl.Workbook()
        ws = wb.active
        ws.title = 'S1'
        for k, v in DATA.items():
            ws[k] = v
        for i, f in enumerate(formulas):
            ws.cell(row=i + 1, column=4).value = f
        xlsx = os.path.join(tmp, 'book.xlsx')
        wb.save(xlsx)
        for i, f in enumerate(formulas):
            line = [tag, repr(f)]
            try:
                text = Parser().set_excel_file_path(xlsx).set_entrypoint_cell(Cell(0, 3, i)).get_translation()
            except BaseException as e:
                line.append(f'TRANSLATE-EXC {type(e).__name__}: {str(e)[:200]}')
                print(' | '.join(line))
                continue
            line.append('code=' + hashlib.sha256(functions_part(text).encode()).hexdigest()[:12])
            code = functions_part(text)
            out_py = os.path.join(tmp, f'out_{i}.py')
            with open(out_py, 'w', encoding='utf-8') as fh:
                fh.write(text)
            for ov in [()] + list(overrides):
                try:
                    ex = Executor().set_executed_class(class_file=out_py)
                    if ov:
                        ex.set_cells([Cell(0, c, r, value=v) for c, r, v in ov])
                    value = ex.get_cell(Cell(0, 3, i)).value
                    line.append(show(value))
                except BaseException as e:
                    line.append(f'EXC {type(e).__name__}: {str(e)[:120]}')
            print(' | '.join(line))
            if os.environ.get('SHOWCODE'):
                print(code)
    finally:
        shutil.rmtree(tmp, ignore_errors=True)


import decimal
import fractions
import importlib.util

from excel2pycl.src.utilities.abstract_excel_in_python_class import AbstractExcelInPython


class Direct(AbstractExcelInPython):
    pass


def generated_instance():
    """An instance of the class printed from the template copy of the runtime helpers."""
    tmp = tempfile.mkdtemp(prefix='e2p_demo_')
    try:
        wb = openpyxl.Workbook()
        wb.active['A1'] = 1
        wb.active['B1'] = '=A1>0'
        xlsx = os.path.join(tmp, 'b.xlsx')
        wb.save(xlsx)
        out_py = os.path.join(tmp, 'gen_cls.py')
        Parser().set_excel_file_path(xlsx).write_translation(out_py)
        spec = importlib.util.spec_from_file_location('gen_cls_demo', out_py)
        module = importlib.util.module_from_spec(spec)
        spec.loader.exec_module(module)
        return module.ExcelInPython()
    finally:
        shutil.rmtree(tmp, ignore_errors=True)


class Odd:
    def __repr__(self):
        return 'Odd()'


def operands(instance):
    return [
        0, 1, -1, 7, 2 ** 70, True, False, 0.0, -0.0, 2.5, 7.0, 0.1 + 0.2, 0.3, float('nan'), float('inf'), -float('inf'),
        None, '', ' ', '0', '7', ' 7 ', '7.0', '2.5', '1e3', '-3', '+4', '1_0', '١٢', 'abc', 'ABC', 'nan', 'inf',
        '2024-02-29', '2024-02-29 00:00:00', 'True', '#N/A',
        instance.EmptyCell(), datetime.date(2024, 2, 29), datetime.datetime(2024, 2, 29), datetime.datetime(2024, 2, 29, 12, 30),
        datetime.date(1999, 12, 31), datetime.time(1, 2), datetime.timedelta(days=1),
        [], [1], [1, 2], (1,), {'a': 1}, b'7', decimal.Decimal('7'), decimal.Decimal('Infinity'), decimal.Decimal('2.5'),
        fractions.Fraction(5, 2), 1 + 0j, Odd(),
    ]


OPERATORS = ['>=', '>', '<=', '<', '==', '!=']
ODD_OPERATORS = ['=', '<>', '', None, 5, '=>', ['=='], ' ==']


def outcome(function, *args):
    try:
        value = function(*args)
        return show(value)
    except BaseException as e:
        return f'EXC {type(e).__name__}: {str(e)[:100]}'


def sweep(name, instance):
    values = operands(instance)
    digest = hashlib.sha256()
    count = 0
    for method in ('_compare', '_by_operator'):
        function = getattr(instance, method)
        for left in values:
            for right in values:
                cells = [outcome(function, op, left, right) for op in OPERATORS]
                line = f'{name} {method} {left!r} ? {right!r} -> ' + ' ; '.join(cells)
                digest.update(line.encode())
                count += 1
                # print every 7th line in full, everything goes into the digest
                if count % 7 == 0:
                    print(line)
        for op in ODD_OPERATORS:
            for left, right in [(1, 2), ('a', 'b'), (None, 1), (datetime.date(2024, 1, 1), 'x'), (1.5, '1.5'), (Odd(), Odd())]:
                line = f'{name} {method} odd-op {op!r} {left!r} ? {right!r} -> {outcome(function, op, left, right)}'
                digest.update(line.encode())
                print(line)
    print(f'{name} lines={count} sha256={digest.hexdigest()}')


sweep('class', Direct())
sweep('template', generated_instance())

COMPARISONS = ['=', '<>', '<', '<=', '>', '>=']
CELLS = ['A1', 'A2', 'A3', 'A4', 'A5', 'A6', 'A7', 'A8', 'A10', 'A12', 'A13', 'A16', 'A17', '"abc"', '7', '2.5', 'TRUE', '""']
formulas = []
for i, left in enumerate(CELLS):
    for j, right in enumerate(CELLS):
        op = COMPARISONS[(i + j) % 6]
        formulas.append(f'={left}{op}{right}')
formulas += ['=1+2=3', '=(1+2)=3', '=A1>A2=TRUE', '=A12>A17', '=A12=A12', '=A12+1>A12', '=IF(A5=0,"blank","no")', '=A1&""="7"',
             '=(A1&"")="7"', '=A14*3=0.3', '=A14*3>=0.3', '=1e3="1000"', '=A18>A1', '=-A9=3', '=50%=0.5']
run(formulas, overrides=[[(0, 0, '7'), (0, 1, None)], [(0, 0, datetime.date(2024, 2, 29)), (0, 2, 'ABC')],
                         [(0, 4, 0), (0, 11, '2024-02-29')]], tag='r2')
