"""Equivalence demo for r4 (operator translation: if/elif chain -> class-level table;
comparison-token tuple -> class attribute).

Translates many formulas that mix comparison, arithmetic, & and % operators (each formula cell
as its own entry point, so a rejected formula does not hide the others), prints the generated
cell functions verbatim, the sha256 of the whole text, the computed values, and the result of
calling OperatorSubTokenTranslator.translate directly on a token of every lexer token class.
"""
import datetime
import hashlib
import os
import re
import shutil
import tempfile

from openpyxl import Workbook

from excel2pycl import Parser, Executor, Cell
from excel2pycl.src.context import Context
from excel2pycl.src.tokens import RegexpBaseToken, EqOperatorToken, PercentToken
from excel2pycl.src.translators.operator_sub_token_translator import OperatorSubTokenTranslator
from excel2pycl.src.translators.expression_token_translator import ExpressionTokenTranslator

FORMULAS = [
    '=A1=B1', '=A1<>B1', '=A1<B1', '=A1>B1', '=A1<=B1', '=A1>=B1',
    '=A1 = B1', '=A1 <> B1', '=A1 < = B1',
    '=(A1<B1)', '=(A1<B1)=(C1>D1)', '=(A1<B1)<>(C1>D1)', '=A1=B1=C1', '=A1<B1<C1',
    '=A1+1>B1*2', '=A1-1<=B1/2', '=A1+B1=C1+D1', '=(A1+B1)*2>=(C1-D1)/2', '=A1*B1<>C1*D1',
    '=A1&B1', '=A1&B1=E1', '=A1&"x"<>E1&"x"', '=E1&F1', '=E1&F1="ab"', '=(E1&F1)="ab"', '="a"&"b"="ab"',
    '=A1%', '=50%', '=A1%>B1%', '=A1%=0.01', '=50%<1', '=A1%+B1%', '=A1%*2=B1%', '=(A1+B1)%', '=200%>=C1',
    '=A1%%', '=A1%&"p"',
    '=-A1<0', '=-A1', '=+A1', '=A1>-B1', '=A1=', '=<B1', '=A1==B1', '=A1=>B1', '=A1><B1', '=A1!=B1',
    '=IF(A1>=B1;A1&"x";B1%)', '=IF(A1<>B1;"ne";"eq")', '=IF(A1=B1;1;IF(A1<B1;2;3))', '=IF((A1<B1)=TRUE;1;0)',
    '=AND(A1<B1;C1>=D1)', '=OR(A1>B1;C1<>D1)', '=SUM(A1:D1)>MAX(A1:D1)', '=MIN(A1:D1)<=AVERAGE(A1:D1)',
    '=SUMIF(A1:D1;">1")', '=SUMIF(A1:D1;"<>2")', '=SUMIF(A1:D1;"<=2.5")', '=SUMIF(A1:D1;2)', '=SUMIF(A1:D1;">="&B1)',
    '=COUNTIFS(A1:D1;"<>2")', '=COUNTIFS(A1:D1;">=2";A1:D1;"<4")', '=COUNTIFS(E1:F1;"a*")', '=COUNTIFS(E1:F1;"=a")',
    '=G1=H1', '=G1<H1', '=G1>=H1', '=G1<>H1', '=I1=0', '=I1=""', '=I1<A1', '=I1<G1', '=I1<E1', '=I1>=I1',
    '=TRUE=TRUE', '=TRUE<>FALSE', '=1=TRUE', '="1"=1', '="a"<"b"', '="B">"a"', '=1.5>=1.5', '=1e3>999', '=0.1+0.2=0.3',
    '=DATE(2024;1;1)=G1', '=DATE(2024;1;2)>H1', '=ROUND(A1/3;2)=0.33', '=LEFT(E1;1)=E1', '=A1&B1&C1="123"',
    '=A1=1%', '=A1*100%=A1', '=10%+A1>1',
]


def cell_functions(text):
    match = re.search(r'\n    def _\d+_\d+_\d+(_\d+)?\(self\):', text)
    return text[match.start():] if match else '<no cell functions>'


def main():
    tmp = tempfile.mkdtemp(prefix='e2p_demo_r4_')
    out = []
    try:
        xlsx = os.path.join(tmp, 'ops.xlsx')
        wb = Workbook()
        ws = wb.active
        ws.title = 'Ops'
        ws.append([1, 2, 3, 4, 'a', 'b', datetime.date(2024, 1, 1), datetime.datetime(2024, 1, 1), None])
        for formula in FORMULAS:
            ws.append([formula])
        wb.save(xlsx)

        translated_rows = []
        for index, formula in enumerate(FORMULAS):
            row = index + 1
            parser = Parser().set_excel_file_path(xlsx).set_entrypoint_cell(Cell(0, 0, row))
            try:
                text = parser.get_translation()
            except BaseException as exc:  # noqa
                out.append(f'[{row}] {formula} -> translation raised {type(exc).__name__}')
                continue
            out.append(f'[{row}] {formula} -> text {hashlib.sha256(text.encode("utf-8")).hexdigest()[:16]}')
            out.append(cell_functions(text).rstrip('\n'))
            py = os.path.join(tmp, f'f{row}.py')
            parser.write_translation(py)
            translated_rows.append(row)
            executor = Executor().set_executed_class(class_file=py)
            for overrides in ([], [Cell(0, 0, 0, value=5), Cell(0, 1, 0, value=5)],
                              [Cell(0, 0, 0, value=0.5), Cell(0, 1, 0, value='2'), Cell(0, 4, 0, value='ab')]):
                try:
                    if overrides:
                        executor.set_cells([Cell(c.title, c.column, c.row, value=c.value) for c in overrides])
                    value = executor.get_cell(Cell(0, 0, row)).value
                    out.append(f'    value{[c.value for c in overrides]!r}: {type(value).__name__}:{value!r}')
                except BaseException as exc:  # noqa
                    out.append(f'    value{[c.value for c in overrides]!r}: raised {type(exc).__name__}')

        # the whole file, rejected formulas removed
        xlsx2 = os.path.join(tmp, 'ops_ok.xlsx')
        wb = Workbook()
        ws = wb.active
        ws.title = 'Ops'
        ws.append([1, 2, 3, 4, 'a', 'b', datetime.date(2024, 1, 1), datetime.datetime(2024, 1, 1), None])
        for row in translated_rows:
            ws.append([FORMULAS[row - 1]])
        wb.save(xlsx2)
        try:
            full = Parser().set_excel_file_path(xlsx2).get_translation()
            out.append(f'whole file: sha {hashlib.sha256(full.encode("utf-8")).hexdigest()} len={len(full)}')
            out.append(f'whole file again equal: {full == Parser().set_excel_file_path(xlsx2).get_translation()}')
        except BaseException as exc:  # noqa
            out.append(f'whole file: raised {type(exc).__name__}')

        # direct calls of the operator translator on one token of every lexer token class
        in_cell = Cell(0, 0, 0)
        samples = ['<>', '>=', '<=', '=', '>', '<', '+', '-', '*', '/', '&', '%', '(', ')', ';', ',', ' ', 'A1', 'A1:B2',
                   'A:A', '"x"', '"a*"', '12', '1.5', 'TRUE', 'SUM', 'IF', 'ROUND', 'Sheet!A1', '^', '#', '!']
        context = Context()
        for token_class in RegexpBaseToken.subclasses():
            results = []
            for sample in samples:
                try:
                    token, rest = token_class.get(sample, in_cell)
                except BaseException as exc:  # noqa
                    results.append(f'{sample!r}:get raised {type(exc).__name__}')
                    continue
                if token is None:
                    continue
                try:
                    results.append(f'{sample!r}:{OperatorSubTokenTranslator.translate(token, None, context)!r}')
                except BaseException as exc:  # noqa
                    results.append(f'{sample!r}:raised {type(exc).__name__}')
            out.append(f'operator of {token_class.__name__}: {" ".join(results)}')

        # tokens of other shapes: subclasses of the mapped classes are not the mapped classes themselves
        class EqSub(EqOperatorToken):
            pass

        class PercentSub(PercentToken):
            pass

        for token in (EqSub(('=',), in_cell), PercentSub(('%',), in_cell), EqOperatorToken(('==', 'x'), in_cell),
                      PercentToken(('pct',), in_cell), EqOperatorToken((), in_cell), EqOperatorToken(None, in_cell),
                      RegexpBaseToken(('?',), in_cell), RegexpBaseToken('xyz', in_cell)):
            try:
                out.append(f'direct {type(token).__name__} {token.value!r}: '
                           f'{OperatorSubTokenTranslator.translate(token, None, context)!r}')
            except BaseException as exc:  # noqa
                out.append(f'direct {type(token).__name__} {token.value!r}: raised {type(exc).__name__}')
        out.append(f'translator classes: {OperatorSubTokenTranslator.__name__} {ExpressionTokenTranslator.__name__}')
    finally:
        shutil.rmtree(tmp, ignore_errors=True)

    text = '\n'.join(out)
    print(text)
    print('DIGEST', hashlib.sha256(text.encode('utf-8')).hexdigest())


if __name__ == '__main__':
    main()
