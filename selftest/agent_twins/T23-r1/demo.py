"""Equivalence demonstration for r1 (MATCH: the three match-type branches of _match share one scan).

Exercises _match/_xmatch of BOTH copies of the runtime helper class (the AbstractExcelInPython class and the
class generated from the str.format template) directly on a large grid of inputs, and also through MATCH / XMATCH /
INDEX(MATCH) formulas of a generated workbook.  Prints every result and a digest.
"""
import datetime
import hashlib
import itertools
import os
import shutil
import tempfile

from openpyxl import Workbook

from excel2pycl import Parser, Executor, Cell
from excel2pycl.src.object_loader import load_module
from excel2pycl.src.utilities.abstract_excel_in_python_class import AbstractExcelInPython

LINES = []


def emit(line):
    LINES.append(line)
    print(line)


def show(value):
    if isinstance(value, float) and value != value:
        return 'nan'
    return f'{type(value).__name__}:{value!r}'


def attempt(function, *args):
    try:
        return show(function(*args))
    except BaseException as error:  # noqa
        return f'raised {type(error).__name__}'


class Runtime(AbstractExcelInPython):
    pass


def build_workbook(path):
    wb = Workbook()
    ws = wb.active
    ws.title = 'Sheet1'
    keys = [10, 20, 20, 30.0, 40, None, 50, 'x', 60]
    texts = ['apple', 'Banana', 'banana', 'cherry', '', None, 'Date', 'fig', 7]
    descending = [90, 80, 80, 70.5, 60, 50, None, 'a', 10]
    for index, (key, text, desc) in enumerate(zip(keys, texts, descending), start=1):
        ws.cell(row=index, column=1, value=key)
        ws.cell(row=index, column=2, value=text)
        ws.cell(row=index, column=3, value=desc)
        ws.cell(row=index, column=4, value=f'partner{index}')
    formulas = [
        '=MATCH(20;A1:A9;0)', '=MATCH(20.0;A1:A9;0)', '=MATCH(30;A1:A9;0)', '=MATCH(35;A1:A9;0)',
        '=MATCH(35;A1:A9;1)', '=MATCH(35;A1:A9)', '=MATCH(5;A1:A9;1)', '=MATCH(1000;A1:A9;1)', '=MATCH(60;A1:A9;1)',
        '=MATCH(75;C1:C9;-1)', '=MATCH(95;C1:C9;-1)', '=MATCH(10;C1:C9;-1)', '=MATCH(80;C1:C9;-1)',
        '=MATCH("banana";B1:B9;0)', '=MATCH("BANANA";B1:B9;0)', '=MATCH("date";B1:B9;0)', '=MATCH("zzz";B1:B9;0)',
        '=MATCH("c";B1:B9;1)', '=MATCH("x";A1:A9;0)', '=MATCH(7;B1:B9;0)', '=MATCH(F1;A1:A9;0)', '=MATCH(F2;A1:A9;0)',
        '=XMATCH(20;A1:A9;0;1)', '=XMATCH(20;A1:A9;0;-1)', '=XMATCH(20;A1:A9)', '=XMATCH(35;A1:A9;-1;1)',
        '=XMATCH(35;A1:A9;1;1)', '=XMATCH(35;A1:A9;-1;-1)', '=XMATCH(45;A1:A9;0;1)', '=XMATCH("BANANA";B1:B9;0;-1)',
        '=INDEX(D1:D9;MATCH(40;A1:A9;0))', '=INDEX(D1:D9;MATCH("cherry";B1:B9;0))', '=INDEX(D1:D9;MATCH(45;A1:A9;1))',
        '=IFERROR(INDEX(D1:D9;MATCH(41;A1:A9;0));"none")',
    ]
    ws.cell(row=1, column=6, value=40)
    for index, formula in enumerate(formulas, start=1):
        ws.cell(row=index, column=8, value=formula)
    wb.save(path)
    return len(formulas)


def direct_grid(instance, label):
    empty = instance.EmptyCell()
    columns = {
        'ascending_int': [[1], [3], [3], [5], [7]],
        'ascending_mixed': [[1], [2.5], [empty], ['a'], [4], [True], [6.0]],
        'descending': [[9], [7.5], [7.5], [empty], [4], ['q'], [1]],
        'texts': [['Apple'], ['banana'], ['BANANA'], [empty], [''], ['cherry'], [3]],
        'bools': [[False], [True], [0], [1], ['TRUE']],
        'dates': [[datetime.datetime(2020, 1, 1)], [datetime.datetime(2021, 6, 1)], [5], [datetime.datetime(2022, 1, 1)]],
        'empty': [],
        'only_empty': [[empty], [empty]],
        'flat_strings': ['ab', 'cd', 'Cd'],
        'wide_rows': [[1, 'p'], [2, 'q'], [2, 'r'], [3, 's']],
        'broken_row_late': [[1], [2], [], [3]],
        'unordered': [[5], [1], [9], [3], [3], [2]],
    }
    lookups = [0, 1, 2, 3, 3.0, 4, 7.5, 8, 100, -1, True, False, empty, None, '', 'a', 'banana', 'BANANA', 'Cd', 'zz',
               datetime.datetime(2021, 6, 1), datetime.datetime(2023, 1, 1), float('inf'), [1]]
    match_types = [0, 1, -1, 2, -7, 0.0, 0.5, -0.5, True, False, empty, float('nan'), None, 'x']
    for (name, column), lookup, match_type in itertools.product(columns.items(), lookups, match_types):
        emit(f'{label} _match({show(lookup)}, {name}, {show(match_type)}) -> '
             f'{attempt(instance._match, lookup, column, match_type)}')
    for (name, column), lookup in itertools.product(columns.items(), lookups):
        emit(f'{label} _match({show(lookup)}, {name}) -> {attempt(instance._match, lookup, column)}')
    for (name, column), lookup, match_mode, search_mode in itertools.product(
            columns.items(), [1, 3, 4, 7.5, 'banana', empty, True], [0, -1, 1, 2], [1, -1, 2, -2, 0]):
        emit(f'{label} _xmatch({show(lookup)}, {name}, {match_mode}, {search_mode}) -> '
             f'{attempt(instance._xmatch, lookup, column, match_mode, search_mode)}')


def main():
    tmp = tempfile.mkdtemp(prefix='t23_r1_')
    try:
        xlsx = os.path.join(tmp, 'book.xlsx')
        out_py = os.path.join(tmp, 'book_generated.py')
        formula_count = build_workbook(xlsx)
        Parser().set_excel_file_path(xlsx).write_translation(out_py)

        executor = Executor().set_executed_class(class_file=out_py)
        for row in range(formula_count):
            emit(f'workbook H{row + 1} -> {attempt(lambda r=row: executor.get_cell(Cell(0, 7, r)).value)}')

        # the same formulas after some key cells were overridden
        executor.set_cells([Cell('Sheet1', 'A', '2', value=25), Cell('Sheet1', 'F', '1', value='x'),
                            Cell('Sheet1', 'B', '3', value='cherry')])
        for row in range(formula_count):
            emit(f'overridden H{row + 1} -> {attempt(lambda r=row: executor.get_cell(Cell(0, 7, r)).value)}')

        # the text of the per-cell functions (everything after the runtime helpers) must not change
        text = open(out_py, encoding='utf-8').read()
        cell_functions = text[text.index("        return '#VALUE!'\n\n    def _0_"):]
        emit('cell functions sha256 ' + hashlib.sha256(cell_functions.encode()).hexdigest())

        direct_grid(Runtime(), 'class')
        direct_grid(load_module(out_py).ExcelInPython(), 'template')
    finally:
        shutil.rmtree(tmp, ignore_errors=True)

    print('lines', len(LINES))
    print('digest', hashlib.sha256('\n'.join(LINES).encode()).hexdigest())


if __name__ == '__main__':
    main()
