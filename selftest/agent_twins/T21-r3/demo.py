"""Equivalence demo for r3 (Executor facade: set_cells / get_cells / get_sheet, handle_cell row handling).

Drives one translated workbook through long, deterministic pseudo-random histories of overrides and
queries (single cell, list of cells, whole sheet; numeric and A1 / sheet-title addressing), including
rejected inputs and partially failing set_cells calls, and prints every value, every exception and the
reported sheet sizes / override tables after each step.
"""
import datetime
import hashlib
import os
import random
import shutil
import sys
import tempfile

from openpyxl import Workbook
from openpyxl.utils import get_column_letter

from excel2pycl import Parser, Executor, Cell
from excel2pycl.src.handle_cell import handle_cell


def describe(value):
    return f'{type(value).__name__}:{value!r}'


def attempt(function, *args):
    try:
        return function(*args)
    except BaseException as exception:  # noqa
        return f'!{type(exception).__name__}:{exception}'


def show_cell(cell):
    if isinstance(cell, str):
        return cell
    return f'({cell.title!r},{cell.column!r},{cell.row!r},{describe(cell.value)},{cell._handled_identifiers})'


def show_grid(grid):
    if isinstance(grid, str):
        return grid
    return '[' + ' | '.join(','.join(show_cell(cell) for cell in row) for row in grid) + ']'


def build_workbook(path):
    wb = Workbook()
    first = wb.active
    first.title = 'Data'
    first['A1'] = 1
    first['B1'] = 2.5
    first['C1'] = '=A1+B1'
    first['A2'] = 'txt'
    first['B2'] = '=A2&"!"'
    first['D2'] = '=SUM(A1:C1)'
    first['A3'] = '=IF(E3>0,"pos","non-pos")'
    first['C3'] = datetime.datetime(2024, 2, 29)
    first['A4'] = "='Second sheet'!A1*2+F6"
    second = wb.create_sheet('Second sheet')
    second['A1'] = 10
    second['B2'] = '=Data!C1*A1'
    second['C1'] = '=C3'
    wb.create_sheet('Empty')
    third = wb.create_sheet('Wide')
    third['F1'] = '=A1=0'
    wb.save(path)


def state(executor):
    instance = executor.get_executed_class()
    overrides = [(uid, show_cell(cell)) for uid, cell in executor._cells.items()]
    return (f'sizes={instance.get_sheets_size()} same_object={instance.get_sheets_size() is executor._sheets_size} '
            f'changed={executor._cells_have_been_changed} overrides={overrides} '
            f'arguments={[(key, describe(value)) for key, value in instance._arguments.items()]}')


def handle_cell_cases(lines):
    titles = {'Data': 0, 'Second sheet': 1}
    cases = [('Data', 'A', '1'), ('Data', 'a', '1'), ('Second sheet', 'XFD', '1048576'), ('Data', 'AA', ''),
             ('Data', 'B', None), (0, 'C', '007'), (1, 2, '3'), (1, 'D', 4), ('Nope', 'A', '1'), ('Data', '', '1'),
             ('Data', 'A1', '1'), ('Data', 'XFE', '1'), ('Data', 'A', 'x'), ('Data', 'A', ' 5 '), ('Data', 'A', '0'),
             ('Data', 'A', '-2'), ('Data', 'A', '1.0'), ('Data', 'A', '١٢'), (None, None, None), (0, 0, 0),
             ('Data', 'A', '1_0'), (2.0, 1.5, '2'), ('Data', 'ZZZZ', '9')]
    for title, column, row in cases:
        cell = Cell(title, column, row)
        outcome = attempt(handle_cell, cell, titles)
        lines.append(f'H {(title, column, row)!r} -> {outcome!r} {show_cell(cell)} uid={attempt(lambda: cell.uid)}')
        again = attempt(handle_cell, cell, {})
        lines.append(f'H again -> {again!r} {show_cell(cell)}')


def random_cell(rng, with_value):
    sheet = rng.randrange(4)
    title = rng.choice([sheet, ['Data', 'Second sheet', 'Empty', 'Wide'][sheet]])
    column = rng.randrange(8)
    row = rng.randrange(8)
    if rng.random() < 0.5:
        column, row = get_column_letter(column + 1), str(row + 1)
    value = rng.choice([None, 0, 1, -4, 2.5, '', 'x', '5', True, False, datetime.datetime(2020, 1, 2)]) \
        if with_value else None
    return Cell(title, column, row, value=value)


BAD_CELLS = [
    lambda: Cell('Missing', 'A', '1', value=1),
    lambda: Cell('Data', 'A', '', value=1),
    lambda: Cell('Data', '', '1', value=1),
    lambda: Cell('Data', 'A', 'x', value=1),
    lambda: Cell(9, 0, 0, value=1),
    lambda: Cell(-1, 1, 1, value=7),
    lambda: Cell(0, None, 1, value=1),
    lambda: Cell(0, 1, None, value=1),
    lambda: Cell(0.0, 1, 1, value=1),
]


def history(seed, class_path, lines):
    rng = random.Random(seed)
    executor = Executor().set_executed_class(class_file=class_path)
    lines.append(f'S{seed} start {state(executor)}')
    for step in range(40):
        action = rng.choice(['set', 'set', 'get', 'get_many', 'sheet', 'sheet_title', 'bad_set', 'bad_get', 'reuse'])
        tag = f'S{seed}.{step} {action}'
        if action == 'set':
            cells = [random_cell(rng, True) for _ in range(rng.randrange(4))]
            if cells and rng.random() < 0.3:
                cells.append(Cell(cells[0].title, cells[0].column, cells[0].row, value='dup'))
            source = iter(cells) if rng.random() < 0.15 else cells
            outcome = attempt(executor.set_cells, source)
            lines.append(f'{tag} {[show_cell(cell) for cell in cells]} -> {outcome is executor}')
        elif action == 'bad_set':
            cells = [random_cell(rng, True), rng.choice(BAD_CELLS)(), random_cell(rng, True)]
            rng.shuffle(cells)
            outcome = attempt(executor.set_cells, cells)
            lines.append(f'{tag} {[show_cell(cell) for cell in cells]} -> {outcome if isinstance(outcome, str) else "ok"}')
        elif action == 'get':
            cell = random_cell(rng, False)
            outcome = attempt(executor.get_cell, cell)
            lines.append(f'{tag} -> {show_cell(outcome)} same={outcome is cell}')
        elif action == 'bad_get':
            cell = rng.choice(BAD_CELLS)()
            outcome = attempt(executor.get_cell, cell)
            lines.append(f'{tag} -> {show_cell(outcome)} {show_cell(cell)}')
        elif action == 'get_many':
            cells = [random_cell(rng, False) for _ in range(rng.randrange(5))]
            if rng.random() < 0.3:
                cells.insert(rng.randrange(len(cells) + 1), rng.choice(BAD_CELLS)())
            source = tuple(cells) if rng.random() < 0.5 else (cell for cell in cells)
            outcome = attempt(executor.get_cells, source)
            shown = outcome if isinstance(outcome, str) else [show_cell(cell) for cell in outcome]
            lines.append(f'{tag} -> {type(outcome).__name__} {shown} {[show_cell(cell) for cell in cells]}')
        elif action == 'sheet':
            sheet = rng.choice([0, 1, 2, 3, 4, -1, 1.0, None, True])
            lines.append(f'{tag} {sheet!r} -> {show_grid(attempt(executor.get_sheet, sheet))}')
        elif action == 'sheet_title':
            sheet = rng.choice(['Data', 'Second sheet', 'Empty', 'Wide', 'Missing', ''])
            lines.append(f'{tag} {sheet!r} -> {show_grid(attempt(executor.get_sheet, sheet))}')
        elif action == 'reuse':
            cell = random_cell(rng, True)
            attempt(executor.set_cells, [cell])
            first = show_cell(attempt(executor.get_cell, cell))
            cell.value = 'changed afterwards'
            second = show_cell(attempt(executor.get_cell, Cell(cell.title, cell.column, cell.row)))
            third = attempt(executor.set_cells, [cell])
            lines.append(f'{tag} -> {first} {second} {third is executor}')
        lines.append(f'S{seed}.{step} state {state(executor)}')
    # every API agrees at the end of the history
    for sheet, title in enumerate(['Data', 'Second sheet', 'Empty', 'Wide']):
        by_index = show_grid(attempt(executor.get_sheet, sheet))
        by_title = show_grid(attempt(executor.get_sheet, title))
        size = executor.get_executed_class().get_sheets_size()[sheet]
        singles = '[' + ' | '.join(
            ','.join(show_cell(attempt(executor.get_cell, Cell(title, get_column_letter(column + 1), str(row + 1))))
                     for column in range(size['last_column'])) for row in range(size['last_row'])) + ']'
        lines.append(f'S{seed} final {title} agree={by_index == by_title} {by_index}')
        lines.append(f'S{seed} final {title} singles {singles}')
    lines.append(f'S{seed} end {state(executor)}')


def main():
    directory = tempfile.mkdtemp(prefix='r3demo')
    lines = []
    try:
        book_path = os.path.join(directory, 'book.xlsx')
        class_path = os.path.join(directory, 'book.py')
        build_workbook(book_path)
        Parser().set_excel_file_path(book_path).write_translation(class_path)
        handle_cell_cases(lines)
        for seed in range(25):
            history(seed, class_path, lines)
    finally:
        shutil.rmtree(directory, ignore_errors=True)

    for index, line in enumerate(lines):
        if line.startswith('H') or line.startswith('S0') or line.startswith('S1.') or index % 29 == 0 \
                or ' bad_' in line:
            print(line)
    print('LINES', len(lines))
    print('DIGEST', hashlib.sha256('\n'.join(lines).encode('utf-8')).hexdigest())
    return 0


if __name__ == '__main__':
    sys.exit(main())
