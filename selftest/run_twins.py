#!/venv/bin/python
"""run_twins.py [--tests] [--only T01,T05] [--props C01,C09]: applies every twin to a scratch copy of /repo's working tree
(under /dev/shm, removed afterwards), optionally runs the 44 tests on it, runs the checks and reports every VIOLATION
(= false alarm) and every ANALYSIS-ERROR (= cannot decide this shape).  Exit 1 if any twin raises a VIOLATION."""
import argparse, os, pathlib, shutil, subprocess, sys, tempfile
from concurrent.futures import ThreadPoolExecutor
sys.path.insert(0, str(pathlib.Path(__file__).resolve().parent))
from twins import TWINS
V = pathlib.Path(__file__).resolve().parent.parent
REPO = pathlib.Path(os.environ.get('VERIF_REPO', '/repo'))
ap = argparse.ArgumentParser()
ap.add_argument('--tests', action='store_true')
ap.add_argument('--only', default='')
ap.add_argument('--props', default='')
ap.add_argument('-v', action='store_true')
a = ap.parse_args()
props = [p for p in a.props.split(',') if p] or [f'C{i:02d}' for i in range(1, 21)]
twins = [t for t in TWINS if not a.only or t['name'].split('-')[0] in a.only.split(',')]
# twins written by independent sub-agents: selftest/agent_twins/<id>/patch.diff
for d in sorted((V / 'selftest' / 'agent_twins').glob('*')):
    if (d / 'patch.diff').exists() and (not a.only or d.name in a.only.split(',') or 'agent' in a.only.split(',')):
        twins.append({'name': d.name, 'patch': d / 'patch.diff', 'edits': []})
base = pathlib.Path(tempfile.mkdtemp(prefix='twins.', dir='/dev/shm' if os.path.isdir('/dev/shm') else None))


def one(t):
    wt = base / t['name']
    wt.mkdir()
    shutil.copytree(REPO / 'excel2pycl', wt / 'excel2pycl', ignore=shutil.ignore_patterns('__pycache__'))
    if t.get('patch'):
        r = subprocess.run(['patch', '-p1', '-s', '-f', '-i', str(t['patch'])], cwd=wt, capture_output=True, text=True)
        if r.returncode != 0:
            return t['name'], None, 'patch does not apply'
    for files, old, new in t['edits']:
        for f in ([files] if isinstance(files, str) else files):
            p = wt / f
            s = p.read_text(encoding='utf-8')
            if s.count(old) != 1:
                return t['name'], None, f'edit does not apply to {f} ({s.count(old)} occurrences)'
            p.write_text(s.replace(old, new), encoding='utf-8')
    res = {}
    tests = ''
    if a.tests:
        shutil.copytree(REPO / 'test', wt / 'test', ignore=shutil.ignore_patterns('__pycache__'))
        r = subprocess.run(['/venv/bin/python', '-m', 'pytest', '-q', '-p', 'no:cacheprovider', '--timeout=900'], cwd=wt,
                           env=dict(os.environ, PYTHONPATH=str(wt)), capture_output=True, text=True)
        tests = r.stdout.strip().splitlines()[-1] if r.stdout.strip() else 'no output'
    env = dict(os.environ, VERIF_REPO=str(wt), VERIF_EVIDENCE_DIR=str(wt / 'ev'))
    for p in props:
        r = subprocess.run([str(V / 'check'), p], cwd=V, env=env, capture_output=True, text=True)
        diag = [l for l in r.stdout.splitlines() if l.startswith(('DIAGNOSTIC', 'ANALYSIS-ERROR', 'UNDECIDED'))]
        res[p] = (r.returncode, diag)
    shutil.rmtree(wt, ignore_errors=True)
    return t['name'], res, tests


try:
    with ThreadPoolExecutor(max_workers=6) as ex:
        results = list(ex.map(one, twins))
finally:
    shutil.rmtree(base, ignore_errors=True)
false_alarms = inconclusive = 0
for name, res, info in results:
    if res is None:
        print(f'{name}: NOT-APPLICABLE {info}')
        false_alarms += 1
        continue
    fired = [p for p, (rc, _) in res.items() if rc == 1]
    errs = [p for p, (rc, _) in res.items() if rc == 2]
    false_alarms += bool(fired)
    inconclusive += bool(errs)
    status = 'FALSE-ALARM' if fired else ('inconclusive' if errs else 'silent')
    print(f'{name}: {status} violations={fired} analysis_errors={errs} {("tests: " + info) if info else ""}')
    und = [l for p, (rc, diag) in res.items() for l in diag if l.startswith('UNDECIDED')]
    for l in und:
        print(f'      {l[:160]}')
    if a.v or fired or errs:
        for p, (rc, diag) in res.items():
            for l in diag[:3]:
                print(f'      {p}: {l[:300]}')
print(f'{len(results)} twins: {false_alarms} false alarm(s), {inconclusive} inconclusive')
sys.exit(1 if false_alarms else 0)
